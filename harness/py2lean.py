"""Translator T for the pure-Python logic cores:  selected functions of src/gambit/**/*.py  ->  Lean 4 definitions (GambitV.Gen.Py*).

The functions listed in FUNCS are parsed with Python's own `ast` (so comments, doc-strings, blank lines and formatting never matter) and
re-emitted, statement by statement, as state-passing Lean over the run-time library `GambitV/Model/PyRt.lean`:

  structure f.St            -- one field per parameter and local variable
  def f.run (env…) : f.St → Py.M f.St ρ f.St     -- `return` / `break` / `continue` / `raise` / fuel travel in the error channel
  def f (env…) (params…) : Py.Res ρ

  x = e                     ->  let s : St := { s with x := ⟦e⟧ }      (preceded by `Py.guard c E` for every way ⟦e⟧ can raise)
  if / elif / else          ->  let s ← (if ⟦c⟧ then A s else B s)
  for x in xs [else]        ->  Py.forEach ⟦xs⟧ body s                    (flag = completed without `break`)
  while c                   ->  Py.whileLoop fuel cond body s             (fuel expression declared per function; the Tie theorems show it suffices)
  try: <one stmt> except E  ->  Py.tryExcept … E …
  yield e                   ->  s.yielded ++ [⟦e⟧]                        (generators are modelled by the list they produce)
  f(…) of another translated function -> Py.call (Gen.f …)

Typing is declared, not inferred from annotations: each entry of FUNCS gives the translation type of every parameter; locals take the
type of their first assignment.  Objects of the repository's classes are modelled through an environment: a `Taxon` is a node id of a
`Forest` (`t.parent`, `t.distance_threshold`, `t.ancestors(incself=…)`), a reference genome an index into the list of genome taxa, a
`KmerSpec` a record (k, prefix).  `Optional` values are `Option`s; using one where a value is needed raises (`TypeError`/`AttributeError`)
unless the enclosing test `x is not None` makes that impossible.

Anything outside the subset raises `Untranslatable`; the function is then emitted as a stub of the right type, the construct is reported,
and the check treats the tie as broken.  Nothing is skipped silently.  A variable that may be read before it is assigned is reported too.
"""
from __future__ import annotations

import ast
import hashlib
import re
from pathlib import Path


class Untranslatable(Exception):
	pass


# ------------------------------------------------------------------------------------------------
# types
# ------------------------------------------------------------------------------------------------
INT, BOOL, NUM, TAXON, GENOME, BYTE, BYTES, KSPEC, NONE = ('int',), ('bool',), ('num',), ('taxon',), ('genome',), ('byte',), ('bytes',), ('kspec',), ('none',)
STR, CHAR, MSG, NUMINF = ('str',), ('char',), ('msg',), ('numinf',)
# str  : text, a list of characters                      msg    : a message for people, identified by its first literal piece only
# numinf : a distance or float('inf') (Option, none = inf)


def OPT(t): return ('opt', t)
def LIST(t): return ('list', t)
def SET(t): return ('set', t)
def TUP(*ts): return ('tuple', tuple(ts))
def DICT(k, v): return ('dict', k, v)


def REC(name): return ('rec', name)


# classes of the repository that are modelled as records (Lean structures of the same names in Model/PyRt.lean); `defaults` are the
# attrs defaults (ClassifierResult.next_taxon, computed by GenomeMatch.next_taxon, is tied separately and not a field here)
RECORDS = {
	'GenomeMatch': dict(fields=[('genome', GENOME), ('distance', NUM), ('matched_taxon', OPT(TAXON))],
	                    # attrs default of matched_taxon: matching_taxon(self.genome.taxon, self.distance)
	                    defaults={'matched_taxon': ('call', 'matching_taxon', ['genome.taxon', 'distance'])}),
	# Bio.Phylo.BaseTree.Clade as far as linkage_to_bio_tree uses it (labels are naturals, heights exact integers)
	'Clade': dict(fields=[('name', OPT(NUM)), ('branch_length', OPT(INT)), ('clades', ('list', ('rec', 'Clade')))],
	              defaults={'name': 'none', 'branch_length': 'none', 'clades': '[]'}),
	'QueryParams': dict(fields=[('classify_strict', BOOL), ('chunksize', OPT(INT)), ('report_closest', INT)], defaults={}),
	'QueryResultItem': dict(fields=[('input', INT), ('classifier_result', ('rec', 'ClassifierResult')), ('report_taxon', OPT(TAXON)),
	                                ('closest_genomes', ('list', ('rec', 'GenomeMatch')))], defaults={}),
	'ClassifierResult': dict(fields=[('success', BOOL), ('predicted_taxon', OPT(TAXON)), ('primary_match', OPT(('rec', 'GenomeMatch'))),
	                                 ('closest_match', ('rec', 'GenomeMatch')), ('warnings', ('list', ('msg',))), ('error', OPT(('msg',)))],
	                         defaults={'warnings': '[]', 'error': 'none'}),
}


def lean_ty(t) -> str:
	k = t[0]
	if k == 'int': return 'Int'
	if k == 'bool': return 'Bool'
	if k in ('num', 'taxon', 'genome'): return 'Nat'
	if k == 'byte': return 'UInt8'
	if k == 'bytes': return 'List UInt8'
	if k == 'kspec': return 'Py.KSpec'
	if k == 'str': return 'List Char'
	if k in ('db', 'obj'): return 'Unit'
	if k == 'arr': return 'Py.Arr'
	if k == 'sigs': return 'Py.Sigs'
	if k == 'carr': return 'Py.CArr'
	if k == 'sigsrc': return 'Py.KSpec'
	if k == 'acc': return 'Py.Acc'
	if k == 'nd': return 'Py.ND'
	if k == 'index': return 'Py.Index'
	if k == 'idx': return 'Py.IdxVal'
	if k == 'csel': return 'Py.CSel'
	if k == 'pyobj': return 'Py.Obj'
	if k == 'lsel': return 'Py.LSel'
	if k == 'dtype': return 'Py.DType'
	if k == 'score': return 'UInt32'
	if k == 'char': return 'Char'
	if k == 'msg': return 'String'
	if k == 'numinf': return 'Option Nat'
	if k == 'rec': return f'Py.{t[1]}'
	if k == 'opt': return f'Option ({lean_ty(t[1])})'
	if k in ('list', 'set'): return f'List ({lean_ty(t[1])})'
	if k == 'tuple': return '(' + ' × '.join(lean_ty(x) for x in t[1]) + ')'
	if k == 'dict': return f'List ({lean_ty(t[1])} × {lean_ty(t[2])})'
	raise Untranslatable(f'no Lean type for {t}')


def default(t) -> str:
	k = t[0]
	if k == 'int': return '(0 : Int)'
	if k == 'bool': return 'false'
	if k in ('num', 'taxon', 'genome'): return '(0 : Nat)'
	if k == 'byte': return '(0 : UInt8)'
	if k == 'kspec': return '(default : Py.KSpec)'
	if k in ('db', 'obj'): return '()'
	if k == 'arr': return '(default : Py.Arr)'
	if k == 'sigs': return '(default : Py.Sigs)'
	if k == 'carr': return '(default : Py.CArr)'
	if k == 'sigsrc': return '(default : Py.KSpec)'
	if k == 'acc': return '(default : Py.Acc)'
	if k == 'nd': return '(default : Py.ND)'
	if k == 'index': return '(default : Py.Index)'
	if k == 'idx': return '(default : Py.IdxVal)'
	if k == 'csel': return '(default : Py.CSel)'
	if k == 'pyobj': return 'Py.Obj.none'
	if k == 'lsel': return '(default : Py.LSel)'
	if k == 'dtype': return '(default : Py.DType)'
	if k == 'score': return '(0 : UInt32)'
	if k == 'char': return "' '"
	if k == 'msg': return '""'
	if k == 'rec': return f'(default : Py.{t[1]})'
	if k in ('opt', 'numinf'): return 'none'
	if k in ('list', 'set', 'dict', 'bytes', 'str'): return '[]'
	if k == 'tuple': return '(' + ', '.join(default(x) for x in t[1]) + ')'
	raise Untranslatable(f'no default for {t}')


LEAN_KEYWORDS = {'match', 'with', 'fun', 'let', 'in', 'at', 'do', 'end', 'from', 'have', 'show', 'then', 'else', 'if', 'open', 'where', 'def',
                 'by', 'type', 'class', 'instance', 'structure', 'theorem', 'example', 'namespace', 'section', 'universe', 'variable', 'return',
                 'for', 'unless', 'try', 'catch', 'finally', 'mut', 'this', 'using', 'calc', 'export', 'import', 'private', 'protected', 'local',
                 'matches', 'deriving', 'extends', 'attribute', 'mutual', 'macro', 'syntax', 'notation', 'infix', 'infixl', 'infixr', 'prefix',
                 'postfix', 'nomatch', 'nofun', 'sorry', 'Type', 'Prop', 'Sort', 'true', 'false', 'abbrev', 'axiom', 'inductive', 'opaque',
                 'noncomputable', 'partial', 'unsafe', 'rec', 'suffices', 'obtain', 'termination_by', 'decreasing_by', 'at', 'is', 'as',
                 'hiding', 'renaming', 'elab', 'initialize', 'builtin_initialize', 'omit', 'include', 'set_option', 'deriving',
                 's', 'x', 'r', 'v', 'F', 'G', 'St', 'Ret', 'run', 'id'}


def mangle(name: str) -> str:
	"""Python identifier -> Lean field name (Lean keywords and the translator's own binders get a trailing underscore)"""
	return name + '_' if name in LEAN_KEYWORDS else name


class E:
	"""translated expression: Lean text, translation type, ways it can raise [(condition, exception class)]"""
	def __init__(self, lean, ty, raises=()):
		self.lean, self.ty, self.raises = lean, ty, list(raises)


def guard_all(es):
	r = []
	for e in es:
		r += e.raises
	return r


# ------------------------------------------------------------------------------------------------
# the functions that are translated
# ------------------------------------------------------------------------------------------------
# env: extra leading parameters of the generated definition (name, Lean type) shared by all calls
ENV_F = ('F', 'Forest')
ENV_G = ('G', 'List Nat')        # taxon of reference genome i

# the NumPy / isinstance expressions of AdvancedIndexingMixin.__getitem__, read as a whole: exact text -> (PyRt expression, type, raise conditions)
GETITEM_OPAQUE = {
	'isinstance(index, (int, np.integer))': ('(Py.IdxVal.isInt s.index)', BOOL),
	'isinstance(index, slice)': ('(Py.IdxVal.isSlice s.index)', BOOL),
	'isinstance(index, np.ndarray)': ('(Py.IdxVal.isNd s.index)', BOOL),
	'isinstance(index, (str, bytes, Mapping, Set))': ('(Py.IdxVal.isSpecial s.index)', BOOL),
	'[index.start, index.stop, index.step]': ('(Py.IdxVal.sliceFields s.index)', LIST(OPT(OPT(INT)))),
	'isinstance(i_1, (int, np.integer))': ('(Py.IdxVal.fieldIsInt s.i_1)', BOOL),
	'index.step == 0': ('(Py.IdxVal.stepIsZero s.index)', BOOL),
	'len(index)': ('((((Py.IdxVal.len? s.index).getD 0 : Nat) : Int))', INT, [('(Py.IdxVal.len? s.index).isNone', 'TypeError')]),
	'np.empty(0, dtype=int)': ('Py.IdxVal.emptyInt', ('idx',)),
	'np.asarray(index)': ('(Py.IdxVal.asarray s.index)', ('idx',), [('(Py.IdxVal.asarrayFails s.index)', 'ValueError')]),
	'index.ndim != 1': ('(decide (Py.IdxVal.ndim s.index ≠ 1))', BOOL, [('(!(Py.IdxVal.isNd s.index))', 'AttributeError')]),
	"index.dtype.kind == 'b'": ("(Py.IdxVal.kind s.index == 'b')", BOOL, [('(!(Py.IdxVal.isNd s.index))', 'AttributeError')]),
	"index.dtype.kind in 'iu'": ("(Py.IdxVal.kind s.index == 'i' || Py.IdxVal.kind s.index == 'u')", BOOL, [('(!(Py.IdxVal.isNd s.index))', 'AttributeError')]),
	"index.dtype.kind == 'u'": ("(Py.IdxVal.kind s.index == 'u')", BOOL, [('(!(Py.IdxVal.isNd s.index))', 'AttributeError')]),
	'index.astype(np.intp)': ('(Py.IdxVal.astypeIntp s.index)', ('idx',)),
	'index < 0': ('(Py.IdxVal.ltZero s.index)', LIST(BOOL)),
	'isneg.any()': ('((s.isneg).any id)', BOOL),
}


def getitem_stmt_opaque(length):
	return {'np.add(index, len(self), out=index, where=isneg)': ('index', f'(Py.IdxVal.addWhere s.index {length} s.isneg)', ('idx',))}


SIGLIST_SELF = dict(self_as_vars=['_list'], self_len_expr='(((s.self__list).length : Nat) : Int)', self_exprs={'LEN': '(((s.self__list).length : Nat) : Int)', 'L': 's.self__list'},
	self_calls={'_check_index': ('check_index', ['LEN']), '_getitem_int': ('siglist_getitem_int', ['L']), '_getitem_int_array': ('siglist_getitem_int_array', ['L']),
	            '_getitem_slice': ('siglist_getitem_slice', ['L']), '_getitem_bool_array': ('siglist_getitem_bool_array', ['L'])})

FUNCS = [
	dict(name='matching_taxon', file='classify.py', qual='matching_taxon', module='PyMatching',
	     env=[ENV_F], params=[('taxon', TAXON), ('d', NUM)], ret=OPT(TAXON)),
	dict(name='find_matches', file='classify.py', qual='find_matches', module='PyFindMatches',
	     env=[ENV_F, ENV_G], params=[('itr', LIST(TUP(GENOME, NUM)))], ret=DICT(TAXON, LIST(INT))),
	dict(name='consensus_taxon', file='classify.py', qual='consensus_taxon', module='PyConsensus',
	     env=[ENV_F], params=[('taxa', LIST(TAXON))], ret=TUP(OPT(TAXON), SET(TAXON))),
	dict(name='next_taxon', file='classify.py', qual='GenomeMatch.next_taxon', module='PyNext',
	     env=[ENV_F, ENV_G], params=[('self_genome', GENOME), ('self_distance', NUM)], ret=OPT(TAXON),
	     self_attrs={'genome': ('self_genome', GENOME), 'distance': ('self_distance', NUM)},
	     locals={'lo': OPT(TAXON), 'hi': OPT(TAXON)}, fuel='F.size + 1'),
	dict(name='chunk_slices', file='util/misc.py', qual='chunk_slices', module='PyChunks',
	     env=[], params=[('n', INT), ('size', INT)], ret=LIST(TUP(INT, INT)), generator=TUP(INT, INT),
	     fuel='s.n.toNat + 1'),
	dict(name='find_kmers', file='kmers.py', qual='find_kmers', module='PyFindKmers',
	     env=[], params=[('kmerspec', KSPEC), ('seq', BYTES)], ret=LIST(TUP(INT, BOOL)), generator=TUP(INT, BOOL),
	     fuel='s.seq.length + 2'),
	dict(name='kmer_indices', file='kmers.py', qual='KmerMatch.kmer_indices', module='PyFindKmers',
	     env=[], params=[('self_kmerspec', KSPEC), ('self_pos', INT), ('self_reverse', BOOL)], ret=TUP(INT, INT),
	     self_attrs={'kmerspec': ('self_kmerspec', KSPEC), 'pos': ('self_pos', INT), 'reverse': ('self_reverse', BOOL)}),
	dict(name='nkmers', file='kmers.py', qual='nkmers', module='PyKmerWrappers', env=[], params=[('k', INT)], ret=INT),
	dict(name='index_dtype', file='kmers.py', qual='index_dtype', module='PyKmerWrappers', env=[], params=[('k', INT)], ret=OPT(INT)),
	dict(name='kmer_to_index', file='kmers.py', qual='kmer_to_index', module='PyKmerWrappers', env=[], params=[('kmer', BYTES)], ret=INT),
	dict(name='kmer_to_index_rc', file='kmers.py', qual='kmer_to_index_rc', module='PyKmerWrappers', env=[], params=[('kmer', BYTES)], ret=INT),
	# --- the path from a set of sequences to a signature: KmerMatch.kmer_index, accumulate_kmers, default_accumulator, calc_signature.
	#     An accumulator is (array or set flavour, k, the indices added so far); its signature() is the sorted duplicate-free list
	#     (for the array flavour that is C01.accumulators_agree).
	dict(name='kmer_index', file='kmers.py', qual='KmerMatch.kmer_index', module='PyCalcSig', env=[],
	     params=[('self_kmerspec', KSPEC), ('self_seq', BYTES), ('self_pos', INT), ('self_reverse', BOOL)], ret=INT,
	     self_attrs={'kmerspec': ('self_kmerspec', KSPEC), 'seq': ('self_seq', BYTES), 'pos': ('self_pos', INT), 'reverse': ('self_reverse', BOOL)},
	     self_exprs={'KS': 's.self_kmerspec', 'POS': 's.self_pos', 'REV': 's.self_reverse'}, self_calls={'kmer_indices': ('kmer_indices', ['KS', 'POS', 'REV'])}),
	dict(name='accumulate_kmers', file='sigs/calc.py', qual='accumulate_kmers', module='PyCalcSig', env=[],
	     params=[('accumulator', ('acc',)), ('kmerspec', KSPEC), ('seq', BYTES)], ret=('acc',), returns_param='accumulator',
	     obj_calls={'kmer_index': ('kmer_index', ['s.kmerspec', 's.seq', '({self}).1', '({self}).2'])}),
	dict(name='default_accumulator', file='sigs/calc.py', qual='default_accumulator', module='PyCalcSig', env=[], params=[('k', INT)], ret=('acc',),
	     calls={'SetAccumulator': ('(Py.Acc.new false {0})', ('acc',), []), 'ArrayAccumulator': ('(Py.Acc.new true {0})', ('acc',), [('(decide ({0} < 0))', 'ValueError')])}),
	dict(name='calc_signature', file='sigs/calc.py', qual='calc_signature', module='PyCalcSig', env=[],
	     params=[('kmerspec', KSPEC), ('seqs', LIST(BYTES)), ('accumulator', OPT(('acc',)))], ret=LIST(INT)),
	# --- util/io.py: compression detection (the stream is the environment: the bytes of the file from its beginning)
	dict(name='guess_compression', file='util/io.py', qual='guess_compression', module='PyIo', env=[('DATA', 'List UInt8')], strings='plain',
	     params=[('fobj', ('obj',))], ret=STR, opaque={'fobj.read(2)': ('(DATA.take 2)', BYTES)}),
	# --- results.py: the attribute walk behind every CSV cell (an object = None / a value shown as text / a record of attributes)
	dict(name='getattr_nested', file='results.py', qual='getattr_nested', module='PyGetattr', env=[], strings='plain',
	     params=[('obj', ('pyobj',)), ('attrs', STR), ('pass_none', BOOL)], ret=('pyobj',), rebind_param=('attrs', 'isinstance(attrs, str)')),
	# --- sigs/calc.py: the signature of a file = calc_signature over its records' sequences, in file order (environment RECS: what parse() yields)
	dict(name='calc_file_signature', file='sigs/calc.py', qual='calc_file_signature', module='PyCalcFile', env=[('RECS', 'List (List UInt8)')],
	     params=[('kspec', KSPEC), ('seqfile', ('obj',)), ('accumulator', OPT(('acc',)))], ret=LIST(INT),
	     opaque={'seqfile.parse()': ('()', ('obj',)), '(record.seq for record in records)': ('RECS', LIST(BYTES))}),
	# --- sigs/base.py: equality of two sequences of signatures (np.array_equal of two integer arrays = equal length and equal entries)
	dict(name='sigarray_eq', file='sigs/base.py', qual='sigarray_eq', module='PySigEq', env=[],
	     params=[('a1', LIST(LIST(INT))), ('a2', LIST(LIST(INT)))], ret=BOOL,
	     opaque={'all(map(np.array_equal, a1, a2))': ('((List.zipWith (fun (x y : List Int) => x == y) s.a1 s.a2).all id)', BOOL)}),
	# --- cluster.py: linkage matrix -> tree (heights as exact integers; link rows = (left, right, height, size))
	dict(name='linkage_to_bio_tree', file='cluster.py', qual='linkage_to_bio_tree', module='PyCluster', env=[],
	     params=[('link', LIST(TUP(INT, INT, INT, INT))), ('labels', LIST(NUM))], ret=REC('Clade'), locals={'clades': LIST(REC('Clade'))}),
	# --- how the command line reconciles k-mer parameters (C14).  kspec_from_params as a whole; of the three command functions the
	#     fragment that decides which parameters are used (between the named statements), as a function of what it reads: the explicit
	#     options and the parameters of the signature sources present (a source is represented by its KmerSpec).
	dict(name='kspec_from_params', file='cli/common.py', qual='kspec_from_params', module='PyParams', env=[('DFLT', 'Py.KSpec')], strings='plain',
	     params=[('k', OPT(INT)), ('prefix_', OPT(STR)), ('default', BOOL)], ret=OPT(KSPEC), defaults={'default': False}),
	dict(name='dist_params', file='cli/dist.py', qual='dist_cmd', module='PyParams', env=[('DFLT', 'Py.KSpec')], strings='msg',
	     fragment=('kspec = common.kspec_from_params(k, prefix)', "prog = 'click' if progress else None", 'kspec'),
	     params=[('k', OPT(INT)), ('prefix_', OPT(STR)), ('query_sigs', OPT(('sigsrc',))), ('ref_sigs', OPT(('sigsrc',)))], ret=OPT(KSPEC)),
	dict(name='create_params', file='cli/signatures.py', qual='create', module='PyParams', env=[('DFLT', 'Py.KSpec'), ('DBS', 'Option Py.KSpec')], strings='msg',
	     fragment=('kspec = common.kspec_from_params(k, prefix)', 'if meta_file is not None', 'kspec'),
	     params=[('k', OPT(INT)), ('prefix_', OPT(STR)), ('db_params', BOOL)], ret=OPT(KSPEC),
	     opaque={'ctx.obj': ('()', ('obj',)), 'ctx.obj.signatures.kmerspec': ('(DBS.getD default)', KSPEC, [('DBS.isNone', 'Other')])},
	     methods={('obj', 'require_signatures'): ('()', ('obj',), [('DBS.isNone', 'Other')], [])}),
	dict(name='strip_extensions', file='cli/common.py', qual='strip_extensions', module='PyLabels', env=[],
	     params=[('filename', STR), ('extensions', LIST(STR))], ret=STR),
	dict(name='strip_seq_file_ext', file='cli/common.py', qual='strip_seq_file_ext', module='PyLabels', env=[], params=[('filename', STR)], ret=STR),
	dict(name='get_file_id', file='cli/common.py', qual='get_file_id', module='PyLabels', env=[],
	     params=[('path', STR), ('strip_dir', BOOL), ('strip_ext', BOOL)], ret=STR),
	dict(name='reportable_taxon', file='db/models.py', qual='reportable_taxon', module='PyReportable', env=[ENV_F],
	     params=[('taxon', OPT(TAXON))], ret=OPT(TAXON)),
	dict(name='classify', file='classify.py', qual='classify', module='PyClassify', env=[ENV_F, ENV_G], strings='msg',
	     params=[('ref_genomes', LIST(GENOME)), ('dists', LIST(NUM)), ('strict', BOOL)], ret=REC('ClassifierResult'),
	     locals={'primary_match': OPT(REC('GenomeMatch')), 'best_i': OPT(INT), 'best_taxon': OPT(TAXON)}),
	dict(name='get_result_item', file='query.py', qual='get_result_item', module='PyResultItem', env=[ENV_F, ENV_G], strings='msg',
	     params=[('db', ('db',)), ('params', REC('QueryParams')), ('dists', LIST(NUM)), ('input', INT)], ret=REC('QueryResultItem'),
	     locals={'closest': LIST(REC('GenomeMatch'))}),
	# --- db/refdb.py: pairing of genomes and signatures by ID.  Environment: GID[g] = the ID value of genome g under the chosen attribute
	#     (none = the genome has no value); ID values are naturals; an ID attribute is abstracted to "is it one of Genome.ID_ATTRS".
	dict(name='check_genomes_have_ids', file='db/refdb.py', qual='_check_genomes_have_ids', module='PyRefDb', env=[('GID', 'List (Option Nat)')],
	     params=[('genomeset', ('db',)), ('id_attr', BOOL)], ret=OPT(INT),
	     opaque={'genomeset.genomes.join(AnnotatedGenome.genome).filter(id_attr == None).count()': ('(((GID.filter (·.isNone)).length : Nat) : Int)', INT)}),
	dict(name='map_ids_to_genomes', file='db/refdb.py', qual='_map_ids_to_genomes', module='PyRefDb', env=[('GID', 'List (Option Nat)')],
	     params=[('genomeset', ('db',)), ('id_attr', BOOL)], ret=DICT(NUM, GENOME),
	     opaque={'genomeset.genomes.join(AnnotatedGenome.genome).add_columns(id_attr)':
	             ('((List.range GID.length).filterMap (fun g => (GID.getD g none).map (fun i => (g, i))))', LIST(TUP(GENOME, NUM)))}),
	dict(name='genomes_by_id', file='db/refdb.py', qual='genomes_by_id', module='PyRefDb', env=[('GID', 'List (Option Nat)')],
	     params=[('genomeset', ('db',)), ('id_attr', BOOL), ('ids', LIST(NUM)), ('strict', BOOL)], ret=LIST(OPT(GENOME)),
	     calls={'_check_genome_id_attr': ('{0}', BOOL, [('(!{0})', 'ValueError')])}),
	dict(name='genomes_by_id_subset', file='db/refdb.py', qual='genomes_by_id_subset', module='PyRefDb', env=[('GID', 'List (Option Nat)')],
	     params=[('genomeset', ('db',)), ('id_attr', BOOL), ('ids', LIST(NUM))], ret=TUP(LIST(GENOME), LIST(INT)),
	     locals={'genomes_out': LIST(GENOME), 'idxs_out': LIST(INT)}),
	dict(name='refdb_init', file='db/refdb.py', qual='ReferenceDatabase.__init__', module='PyRefDb',
	     env=[('GID', 'List (Option Nat)'), ('IDATTR', 'Option Bool'), ('SIGIDS', 'List Nat')],
	     params=[('genomeset', ('db',)), ('signatures', ('db',))], ret=TUP(LIST(GENOME), LIST(INT)), init=['genomes', 'sig_indices'], strings='msg',
	     opaque={'signatures.meta.id_attr': ('IDATTR', OPT(BOOL)), 'signatures.ids': ('SIGIDS', LIST(NUM)),
	             'object_session(genomeset)': ('()', ('db',)), 'genomeset.genomes.count()': ('((GID.length : Nat) : Int)', INT)}),
	# --- sigs/calc.py: one signature per file, in file order, under any completion order.  Environment: R[f] = the signature of file f
	#     (none = computing it raises), SIGMA = the order in which the submitted tasks complete.  Files, futures and signatures are naturals.
	dict(name='calc_file_signatures', file='sigs/calc.py', qual='calc_file_signatures', module='PyCalcFiles',
	     env=[('R', 'List (Option Nat)'), ('SIGMA', 'List Nat')],
	     params=[('kspec', ('obj',)), ('files', LIST(NUM)), ('progress', ('obj',)), ('concurrency', OPT(STR)), ('max_workers', OPT(INT)), ('executor', OPT(('obj',)))],
	     ret=LIST(OPT(NUM)), locals={'sigs': LIST(OPT(NUM)), 'executor_context': OPT(('obj',))},
	     calls={'calc_file_signature': ('((R.getD {1} none).getD 0)', NUM, [('(R.getD {1} none).isNone', 'Other')]),
	            'ThreadPoolExecutor': ('()', ('obj',), []), 'ProcessPoolExecutor': ('()', ('obj',), []), 'nullcontext': ('(some ())', OPT(('obj',)), []),
	            'iter_progress': ('{0}', LIST(NUM), []), 'get_progress': ('()', ('obj',), []),
	            'as_completed': ('(SIGMA.filter (fun f => (({0}).map (·.1)).contains f))', LIST(NUM), []),
	            'SignatureList': ('{0}', LIST(OPT(NUM)), [])},
	     call_kw={'ThreadPoolExecutor': ['max_workers=max_workers'], 'ProcessPoolExecutor': ['max_workers=max_workers']},
	     methods={('obj', 'submit'): ('s.file', NUM, [], ['calc_file_signature', 'kspec', 'file']),
	              ('obj', 'increment'): ('()', ('obj',), [], None),
	              ('num', 'result'): ('((R.getD {self} none).getD 0)', NUM, [('(R.getD {self} none).isNone', 'Other')], [])}),
	# --- metric.py: the Python wrappers of the distance kernels
	dict(name='cast_sigs_array', file='metric.py', qual='_cast_sigs_array', module='PyMetric', env=[], dtype_as='record',
	     params=[('arr', ('arr',))], ret=('arr',)),
	dict(name='jaccard', file='metric.py', qual='jaccard', module='PyMetric', env=[], dtype_as='record',
	     params=[('coords1', ('arr',)), ('coords2', ('arr',))], ret=('score',)),
	dict(name='jaccarddist', file='metric.py', qual='jaccarddist', module='PyMetric', env=[], dtype_as='record',
	     params=[('coords1', ('arr',)), ('coords2', ('arr',))], ret=('score',)),
	dict(name='num_pairs', file='metric.py', qual='num_pairs', module='PyMetric', env=[], params=[('n', INT)], ret=INT),
	dict(name='jaccarddist_array', file='metric.py', qual='jaccarddist_array', module='PyBulk', env=[], dtype_as='record', arrays=True, strings='msg',
	     params=[('query', ('arr',)), ('refs', ('sigs',)), ('out', OPT(('nd',)))], ret=('nd',), fills_out=True),
	dict(name='jaccarddist_matrix', file='metric.py', qual='jaccarddist_matrix', module='PyBulk', env=[], dtype_as='record', arrays=True, strings='msg',
	     params=[('queries', LIST(('arr',))), ('refs', ('sigs',)), ('ref_indices', OPT(LIST(INT))), ('out', OPT(('nd',))), ('chunksize', OPT(INT)), ('progress', ('obj',))],
	     ret=('nd',), fills_out=True,
	     calls={'get_progress': ('()', ('obj',), [])}, methods={('obj', 'increment'): ('()', ('obj',), [], None)}),
	dict(name='jaccarddist_pairwise', file='metric.py', qual='jaccarddist_pairwise', module='PyBulk', env=[], dtype_as='record', arrays=True, strings='msg',
	     params=[('sigs', ('sigs',)), ('indices', OPT(LIST(INT))), ('flat', BOOL), ('out', OPT(('nd',))), ('progress', ('obj',))], ret=('nd',),
	     # next_out is assigned and read under the same condition `flat` (a correlation the definite-assignment check does not see)
	     assume_bound=['next_out'],
	     calls={'get_progress': ('()', ('obj',), [])}, methods={('obj', 'increment'): ('()', ('obj',), [], None)}),
	dict(name='check_index', file='util/indexing.py', qual='AdvancedIndexingMixin._check_index', module='PyCheckIndex',
	     env=[], params=[('self_len', INT), ('i', INT)], ret=INT, self_len='self_len'),
	# --- sigs/base.py (SignatureList): the list-backed collection delegates to a Python list (the methods return the updated list)
	dict(name='siglist_getitem_int', file='sigs/base.py', qual='SignatureList._getitem_int', module='PySigList', env=[],
	     params=[('self__list', LIST(LIST(INT))), ('i', INT)], ret=LIST(INT), self_as_vars=['_list']),
	dict(name='siglist_setitem', file='sigs/base.py', qual='SignatureList.__setitem__', module='PySigList', env=[],
	     params=[('self__list', LIST(LIST(INT))), ('i', INT), ('sig', LIST(INT))], ret=LIST(LIST(INT)), self_as_vars=['_list'], returns_param='self__list'),
	dict(name='siglist_delitem', file='sigs/base.py', qual='SignatureList.__delitem__', module='PySigList', env=[],
	     params=[('self__list', LIST(LIST(INT))), ('i', INT)], ret=LIST(LIST(INT)), self_as_vars=['_list'], returns_param='self__list'),
	dict(name='siglist_insert', file='sigs/base.py', qual='SignatureList.insert', module='PySigList', env=[],
	     params=[('self__list', LIST(LIST(INT))), ('i', INT), ('sig', LIST(INT))], ret=LIST(LIST(INT)), self_as_vars=['_list'], returns_param='self__list'),
	# --- sigs/base.py (ConcatenatedSignatureArray) and util/indexing.py (the mixin's defaults): index plumbing of the packed collections.
	#     A packed collection is (values, bounds); methods take them as leading parameters.
	dict(name='concat_len', file='sigs/base.py', qual='ConcatenatedSignatureArray.__len__', module='PyConcat', env=[], params=[('self_values', LIST(INT)), ('self_bounds', LIST(INT))], ret=INT, self_attrs={'values': ('self_values', LIST(INT)), 'bounds': ('self_bounds', LIST(INT))}, self_len_expr='(((s.self_bounds).length : Int) - 1)', self_exprs={'LEN': '(((s.self_bounds).length : Int) - 1)', 'V': 's.self_values', 'B': 's.self_bounds'}),
	dict(name='concat_getitem_int', file='sigs/base.py', qual='ConcatenatedSignatureArray._getitem_int', module='PyConcat', env=[],
	     params=[('self_values', LIST(INT)), ('self_bounds', LIST(INT)), ('i', INT)], ret=LIST(INT), self_attrs={'values': ('self_values', LIST(INT)), 'bounds': ('self_bounds', LIST(INT))}, self_len_expr='(((s.self_bounds).length : Int) - 1)', self_exprs={'LEN': '(((s.self_bounds).length : Int) - 1)', 'V': 's.self_values', 'B': 's.self_bounds'}),
	dict(name='concat_sizeof', file='sigs/base.py', qual='ConcatenatedSignatureArray.sizeof', module='PyConcat', env=[],
	     params=[('self_values', LIST(INT)), ('self_bounds', LIST(INT)), ('index', INT)], ret=INT, self_attrs={'values': ('self_values', LIST(INT)), 'bounds': ('self_bounds', LIST(INT))}, self_len_expr='(((s.self_bounds).length : Int) - 1)', self_exprs={'LEN': '(((s.self_bounds).length : Int) - 1)', 'V': 's.self_values', 'B': 's.self_bounds'}, self_calls={'_check_index': ('check_index', ['LEN']), '_getitem_int': ('concat_getitem_int', ['V', 'B']), 'sizeof': ('concat_sizeof', ['V', 'B']), '_getitem_int_array': ('concat_getitem_int_array', ['V', 'B']), 'super._getitem_slice': ('mixin_getitem_slice', ['V', 'B'])}),
	dict(name='concat_getitem_int_array', file='sigs/base.py', qual='ConcatenatedSignatureArray._getitem_int_array', module='PyConcat', env=[],
	     params=[('self_values', LIST(INT)), ('self_bounds', LIST(INT)), ('indices', LIST(INT))], ret=('carr',), self_attrs={'values': ('self_values', LIST(INT)), 'bounds': ('self_bounds', LIST(INT))}, self_len_expr='(((s.self_bounds).length : Int) - 1)', self_exprs={'LEN': '(((s.self_bounds).length : Int) - 1)', 'V': 's.self_values', 'B': 's.self_bounds'}, self_calls={'_check_index': ('check_index', ['LEN']), '_getitem_int': ('concat_getitem_int', ['V', 'B']), 'sizeof': ('concat_sizeof', ['V', 'B']), '_getitem_int_array': ('concat_getitem_int_array', ['V', 'B']), 'super._getitem_slice': ('mixin_getitem_slice', ['V', 'B'])}, comp_types={'out': LIST(INT)}),
	dict(name='mixin_getitem_slice', file='util/indexing.py', qual='AdvancedIndexingMixin._getitem_slice', module='PyConcat', env=[],
	     params=[('self_values', LIST(INT)), ('self_bounds', LIST(INT)), ('index', TUP(OPT(INT), OPT(INT), OPT(INT)))], ret=('carr',), self_attrs={'values': ('self_values', LIST(INT)), 'bounds': ('self_bounds', LIST(INT))}, self_len_expr='(((s.self_bounds).length : Int) - 1)', self_exprs={'LEN': '(((s.self_bounds).length : Int) - 1)', 'V': 's.self_values', 'B': 's.self_bounds'}, self_calls={'_check_index': ('check_index', ['LEN']), '_getitem_int': ('concat_getitem_int', ['V', 'B']), 'sizeof': ('concat_sizeof', ['V', 'B']), '_getitem_int_array': ('concat_getitem_int_array', ['V', 'B']), 'super._getitem_slice': ('mixin_getitem_slice', ['V', 'B'])}),
	dict(name='mixin_getitem_bool_array', file='util/indexing.py', qual='AdvancedIndexingMixin._getitem_bool_array', module='PyConcat', env=[],
	     params=[('self_values', LIST(INT)), ('self_bounds', LIST(INT)), ('index', LIST(BOOL))], ret=('carr',), self_attrs={'values': ('self_values', LIST(INT)), 'bounds': ('self_bounds', LIST(INT))}, self_len_expr='(((s.self_bounds).length : Int) - 1)', self_exprs={'LEN': '(((s.self_bounds).length : Int) - 1)', 'V': 's.self_values', 'B': 's.self_bounds'}, self_calls={'_check_index': ('check_index', ['LEN']), '_getitem_int': ('concat_getitem_int', ['V', 'B']), 'sizeof': ('concat_sizeof', ['V', 'B']), '_getitem_int_array': ('concat_getitem_int_array', ['V', 'B']), 'super._getitem_slice': ('mixin_getitem_slice', ['V', 'B'])}),
	dict(name='concat_getitem_slice', file='sigs/base.py', qual='ConcatenatedSignatureArray._getitem_slice', module='PyConcat', env=[],
	     params=[('self_values', LIST(INT)), ('self_bounds', LIST(INT)), ('s_', TUP(OPT(INT), OPT(INT), OPT(INT)))], ret=('carr',), self_attrs={'values': ('self_values', LIST(INT)), 'bounds': ('self_bounds', LIST(INT))}, self_len_expr='(((s.self_bounds).length : Int) - 1)', self_exprs={'LEN': '(((s.self_bounds).length : Int) - 1)', 'V': 's.self_values', 'B': 's.self_bounds'}, self_calls={'_check_index': ('check_index', ['LEN']), '_getitem_int': ('concat_getitem_int', ['V', 'B']), 'sizeof': ('concat_sizeof', ['V', 'B']), '_getitem_int_array': ('concat_getitem_int_array', ['V', 'B']), 'super._getitem_slice': ('mixin_getitem_slice', ['V', 'B'])}),
	# --- the same for the list-backed collection: its own _getitem_int_array, the mixin's defaults for slices and masks
	dict(name='siglist_getitem_int_array', file='sigs/base.py', qual='SignatureList._getitem_int_array', module='PySigListGet', env=[],
	     params=[('self__list', LIST(LIST(INT))), ('indices', LIST(INT))], ret=LIST(LIST(INT)), comp_types={'ret__': LIST(LIST(INT))},
	     opaque={'self.kmerspec': ('()', ('obj',)), 'self.dtype': ('()', ('obj',))}, calls={'SignatureList': ('{0}', LIST(LIST(INT)), [])}, self_as_vars=['_list'], self_len_expr='(((s.self__list).length : Nat) : Int)', self_exprs={'LEN': '(((s.self__list).length : Nat) : Int)', 'L': 's.self__list'}, self_calls={'_check_index': ('check_index', ['LEN']), '_getitem_int': ('siglist_getitem_int', ['L']), '_getitem_int_array': ('siglist_getitem_int_array', ['L']), '_getitem_slice': ('siglist_getitem_slice', ['L']), '_getitem_bool_array': ('siglist_getitem_bool_array', ['L'])}),
	dict(name='siglist_getitem_slice', file='util/indexing.py', qual='AdvancedIndexingMixin._getitem_slice', module='PySigListGet', env=[],
	     params=[('self__list', LIST(LIST(INT))), ('index', TUP(OPT(INT), OPT(INT), OPT(INT)))], ret=LIST(LIST(INT)), self_as_vars=['_list'], self_len_expr='(((s.self__list).length : Nat) : Int)', self_exprs={'LEN': '(((s.self__list).length : Nat) : Int)', 'L': 's.self__list'}, self_calls={'_check_index': ('check_index', ['LEN']), '_getitem_int': ('siglist_getitem_int', ['L']), '_getitem_int_array': ('siglist_getitem_int_array', ['L']), '_getitem_slice': ('siglist_getitem_slice', ['L']), '_getitem_bool_array': ('siglist_getitem_bool_array', ['L'])}),
	dict(name='siglist_getitem_bool_array', file='util/indexing.py', qual='AdvancedIndexingMixin._getitem_bool_array', module='PySigListGet', env=[],
	     params=[('self__list', LIST(LIST(INT))), ('index', LIST(BOOL))], ret=LIST(LIST(INT)), self_as_vars=['_list'], self_len_expr='(((s.self__list).length : Nat) : Int)', self_exprs={'LEN': '(((s.self__list).length : Nat) : Int)', 'L': 's.self__list'}, self_calls={'_check_index': ('check_index', ['LEN']), '_getitem_int': ('siglist_getitem_int', ['L']), '_getitem_int_array': ('siglist_getitem_int_array', ['L']), '_getitem_slice': ('siglist_getitem_slice', ['L']), '_getitem_bool_array': ('siglist_getitem_bool_array', ['L'])}),
	# --- util/indexing.py: the dispatch itself, as the packed collections inherit it.  `index` is a dynamically typed value (Py.IdxVal: what
	#     isinstance / len / np.asarray say about the object); the NumPy expressions are read as a whole (exact text -> PyRt function).
	dict(name='concat_getitem', file='util/indexing.py', qual='AdvancedIndexingMixin.__getitem__', module='PyGetitem', env=[],
	     params=[('self_values', LIST(INT)), ('self_bounds', LIST(INT)), ('index', ('idx',))], ret=('csel',), split_loop_targets=True,
	     self_attrs={'values': ('self_values', LIST(INT)), 'bounds': ('self_bounds', LIST(INT))}, self_len_expr='(((s.self_bounds).length : Int) - 1)', self_exprs={'LEN': '(((s.self_bounds).length : Int) - 1)', 'V': 's.self_values', 'B': 's.self_bounds'}, self_calls={'_check_index': ('check_index', ['LEN']), '_getitem_int': ('concat_getitem_int', ['V', 'B']), 'sizeof': ('concat_sizeof', ['V', 'B']), '_getitem_int_array': ('concat_getitem_int_array', ['V', 'B']), 'super._getitem_slice': ('mixin_getitem_slice', ['V', 'B']), '_getitem_slice': ('concat_getitem_slice', ['V', 'B']), '_getitem_bool_array': ('mixin_getitem_bool_array', ['V', 'B'])},
	     opaque=GETITEM_OPAQUE, stmt_opaque=getitem_stmt_opaque('(((s.self_bounds).length : Int) - 1)')),
	dict(name='siglist_getitem', file='util/indexing.py', qual='AdvancedIndexingMixin.__getitem__', module='PySigListGetitem', env=[],
	     params=[('self__list', LIST(LIST(INT))), ('index', ('idx',))], ret=('lsel',), split_loop_targets=True, **SIGLIST_SELF,
	     opaque=GETITEM_OPAQUE, stmt_opaque=getitem_stmt_opaque('(((s.self__list).length : Nat) : Int)')),
	# --- db/refdb.py: which two files of a database directory are loaded (environment DIR: the names `path.iterdir()` yields; the two set
	#     comprehensions are read as a whole; the local helper `check_single_match` is inlined at its two call sites)
	dict(name='locate_files', file='db/refdb.py', qual='ReferenceDatabase.locate_files', module='PyLocate', env=[('DIR', 'List (List Char)')], strings='plain',
	     params=[('cls', ('obj',)), ('path', STR)], ret=TUP(STR, STR), inline_local_defs=True,
	     calls={'Path': ('{0}', STR, [])},
	     opaque={"{f for f in path.iterdir() if f.suffix in ('.gdb', '.db')}": ('(DIR.filter (fun f => Py.pathSuffix f == ".gdb".toList || Py.pathSuffix f == ".db".toList))', SET(STR)),
	             "{f for f in path.iterdir() if f.suffix in ('.gs', '.h5')}": ('(DIR.filter (fun f => Py.pathSuffix f == ".gs".toList || Py.pathSuffix f == ".h5".toList))', SET(STR))},
	     methods={('set', 'pop'): ('(({self}).headD [])', STR, [('({self}).isEmpty', 'KeyError')], [])}),
	# --- db/models.py: the lineage walk every classification step rests on (`self` is the taxon: a node of the forest)
	dict(name='taxon_ancestors', file='db/models.py', qual='Taxon.ancestors', module='PyAncestors', env=[ENV_F],
	     params=[('self_t', TAXON), ('incself', BOOL)], defaults={'incself': False}, ret=LIST(TAXON), generator=TAXON,
	     self_name='self_t', locals={'taxon': OPT(TAXON)}, fuel='F.size + 1'),
	# --- util/io.py, cli/common.py: which files a command reads and how they are labelled (C08, C16).  Environment of read_lines: LINES, the
	#     lines iterating over the opened text file yields; paths are text, `str(Path(p))` is pathlib's normal form `Py.pathStr`
	dict(name='read_lines', file='util/io.py', qual='read_lines', module='PySeqFiles', env=[('LINES', 'List (List Char)')], strings='plain',
	     params=[('file_or_path', ('obj',)), ('strip', BOOL), ('skip_empty', BOOL)], defaults={'strip': True, 'skip_empty': False},
	     ret=LIST(STR), generator=STR, calls={'maybe_open': ('()', ('obj',), [])}, opaque={'file': ('LINES', LIST(STR))}),
	dict(name='get_sequence_files', file='cli/common.py', qual='get_sequence_files', module='PySeqFiles', env=[('LINES', 'List (List Char)')], strings='plain',
	     params=[('explicit', OPT(LIST(STR))), ('listfile', OPT(('obj',))), ('listfile_dir', OPT(STR)), ('strip_dir', BOOL), ('strip_ext', BOOL)],
	     defaults={'explicit': None, 'listfile': None, 'listfile_dir': None, 'strip_dir': True, 'strip_ext': True},
	     ret=OPT(TUP(LIST(STR), LIST(STR))), paths=True, locals={'ids': LIST(STR), 'paths': LIST(STR)}, calls={'Path': ('(Py.pathStr {0})', STR, [])},
	     opaque={"SequenceFile.from_paths(paths, 'fasta', 'auto')": ('s.paths', LIST(STR))}),
	# --- cluster.py: the CSV of a distance matrix as the rows handed to the csv writer (`csv_rows_prepass`: the writer = the list of rows written so far)
	dict(name='dump_dmat_csv', file='cluster.py', qual='dump_dmat_csv', module='PyDmatCsv', env=[], strings='plain',
	     params=[('file', ('obj',)), ('dmat', LIST(LIST(('score',)))), ('row_ids', LIST(STR)), ('col_ids', LIST(STR)), ('corner', OPT(STR)), ('fmt', STR)],
	     defaults={'corner': None, 'fmt': '0.4f'}, ret=LIST(LIST(STR)), returns_local='writer', csv_open="maybe_open(file, 'w', newline='')",
	     locals={'writer': LIST(LIST(STR)), 'values_str': LIST(STR)},
	     opaque={"corner or ''": ('((s.corner).getD [])', STR)},
	     calls={'format': ('(Py.formatScore {1} {0})', STR, [('(!(Py.formatKnown {1}))', 'Other')])}),
]

EXC = {'ValueError', 'TypeError', 'IndexError', 'KeyError', 'AttributeError', 'AssertionError', 'RuntimeError'}


def exc_name(node) -> str:
	if node is None:
		return 'Other'
	if isinstance(node, ast.Call):
		node = node.func
	if isinstance(node, ast.Name):
		return node.id if node.id in EXC else 'Other'
	if isinstance(node, ast.Attribute):     # click.ClickException etc.
		return 'Other'
	raise Untranslatable(f'exception expression {ast.dump(node)[:60]}')


# ------------------------------------------------------------------------------------------------
# one function
# ------------------------------------------------------------------------------------------------
class Fn:
	def __init__(self, decl, node: ast.FunctionDef, known: dict):
		self.d = decl
		self.node = node
		self.known = known                  # name -> decl of the other translated functions
		self.vars = dict(decl['params'])    # name -> type (parameters and locals)
		self.order = [n for n, _ in decl['params']]
		self.narrow = set()                 # keys of Optional expressions known to be non-None here
		self.calls = set()                  # modules of the translated functions this one calls
		self.callees = set()                # their names (a function that calls a stub is not comparable with the real one either)
		self.consts = {}                    # module-level literal constants
		self.pre = []                       # hoisted calls of translated functions of the statement being translated
		self.nohoist = 0                    # > 0 inside operands that are evaluated conditionally (and / or / conditional expression / loop test)
		self.nv = 0
		self.list_hint = None               # declared type of the variable a list expression is being assigned to
		self.viewdef = {}                   # local name -> the view expression it was assigned (x = a[…]; f(out=x) writes into a)
		self.gen = decl.get('generator')
		for n, t in (decl.get('locals') or {}).items():
			self.vars[n] = t
			self.order.append(n)
		if self.gen:
			self.vars['yielded'] = LIST(self.gen)
			self.order.append('yielded')

	# ---- helpers ---------------------------------------------------------------------------------
	def key(self, node) -> str:
		return ast.dump(node)

	def root(self, node):
		while isinstance(node, (ast.Attribute, ast.Subscript)):
			node = node.value
		return node.id if isinstance(node, ast.Name) else None

	def declare(self, name, ty):
		if name in self.vars:
			old = self.vars[name]
			if old != ty:
				if old[0] == 'opt' and (ty == NONE or old[1] == ty):
					return
				if old == NUMINF and ty == NUM:
					return
				if ty[0] == 'opt' and ty[1] == old:           # later assignment makes it Optional
					self.vars[name] = ty
					return
				if old in ((('list', NONE)), ) :
					self.vars[name] = ty
					return
				raise Untranslatable(f'variable {name} assigned values of types {old} and {ty}')
		else:
			if ty == NONE:
				raise Untranslatable(f'type of {name} unknown (first assigned None)')
			self.vars[name] = ty
			self.order.append(name)

	def coerce(self, e: E, ty, what='value') -> E:
		"""use e where a value of type ty is expected"""
		if e.ty == ty:
			return e
		if e.ty == NONE and ty[0] == 'opt':
			return E('none', ty, e.raises)
		# `return None, None` where the function otherwise returns a pair: "nothing", declared as an Optional pair
		if e.ty[0] == 'tuple' and all(t == NONE for t in e.ty[1]) and ty[0] == 'opt' and ty[1][0] == 'tuple' and len(ty[1][1]) == len(e.ty[1]):
			return E('none', ty, e.raises)
		if e.ty == NONE and ty == ('pyobj',):
			return E('Py.Obj.none', ty, e.raises)
		if ty[0] == 'opt' and e.ty == ty[1]:
			return E(f'(some {e.lean})', ty, e.raises)
		if e.ty[0] == 'opt' and e.ty[1] == ty:
			return self.unwrap(e, 'TypeError')
		if ty == ('index',) and e.ty == TUP(INT, INT) and getattr(e, 'parts', None):
			return E(f'(Py.Index.slice {e.parts[0].lean} {e.parts[1].lean})', ty, e.raises)
		if ty == ('index',) and e.ty == TUP(INT, INT):
			return E(f'(Py.Index.slice ({e.lean}).1 ({e.lean}).2)', ty, e.raises)
		if ty == ('index',) and e.ty == LIST(INT):
			return E(f'(Py.Index.ints {e.lean})', ty, e.raises)
		# a dynamically typed index used where the callee expects one particular kind (the enclosing isinstance / dtype tests select it; a value
		# of another kind raises as Python would: int() / slice.indices() / iteration of a non-integer)
		if e.ty == ('idx',) and ty == INT:
			return E(f'(Py.IdxVal.getInt {e.lean})', ty, e.raises + [(f'(!(Py.IdxVal.isInt {e.lean}))', 'TypeError')])
		if e.ty == ('idx',) and ty == TUP(OPT(INT), OPT(INT), OPT(INT)):
			return E(f'(Py.IdxVal.sliceTuple {e.lean})', ty, e.raises + [(f'(Py.IdxVal.sliceHasOther {e.lean})', 'TypeError')])
		if e.ty == ('idx',) and ty == LIST(INT):
			return E(f'(Py.IdxVal.ints {e.lean})', ty, e.raises + [(f'(!(Py.IdxVal.isNd {e.lean}))', 'TypeError')])
		if e.ty == ('idx',) and ty == LIST(BOOL):
			return E(f'(Py.IdxVal.bools {e.lean})', ty, e.raises + [(f'(!(Py.IdxVal.isNd {e.lean}))', 'TypeError')])
		if ty == ('csel',) and e.ty == LIST(INT):
			return E(f'(Py.CSel.one {e.lean})', ty, e.raises)
		if ty == ('csel',) and e.ty == ('carr',):
			return E(f'(Py.CSel.many {e.lean})', ty, e.raises)
		if ty == ('lsel',) and e.ty == LIST(INT):
			return E(f'(Py.LSel.one {e.lean})', ty, e.raises)
		if ty == ('lsel',) and e.ty == LIST(LIST(INT)):
			return E(f'(Py.LSel.many {e.lean})', ty, e.raises)
		if e.ty == NUM and ty == NUMINF:
			return E(f'(some {e.lean})', ty, e.raises)
		if e.ty == NUMINF and ty == NUM:      # float('inf') where a distance is expected: outside the model, reported as an exception
			return E(f'(({e.lean}).getD 0)', ty, e.raises + [(f'({e.lean}).isNone', 'Other')])
		if e.ty[0] == 'tuple' and ty == LIST(INT) and all(t == INT for t in e.ty[1]) and getattr(e, 'parts', None) is None:
			n = len(e.ty[1])
			projs = [f'({e.lean})' + ''.join(['.2'] * i) + ('.1' if i < n - 1 else '') for i in range(n)] if n > 1 else [e.lean]
			return E('[' + ', '.join(projs) + ']', ty, e.raises)
		if e.ty[0] == 'tuple' and ty[0] == 'list' and getattr(e, 'parts', None) is not None and all(p.ty == ty[1] for p in e.parts):
			return E('[' + ', '.join(p.lean for p in e.parts) + ']', ty, e.raises)     # a tuple used as a homogeneous sequence
		if e.ty[0] == 'set' and ty[0] == 'set' and e.ty[1] == NONE:
			return E('[]', ty, e.raises)
		if e.ty[0] == 'list' and ty[0] == 'list' and e.ty[1] == NONE:
			return E('[]', ty, e.raises)
		if e.ty[0] == 'tuple' and ty[0] == 'tuple' and len(e.ty[1]) == len(ty[1]) and getattr(e, 'parts', None):
			parts = [self.coerce(p, t) for p, t in zip(e.parts, ty[1])]
			return E('(' + ', '.join(p.lean for p in parts) + ')', ty, guard_all(parts))
		raise Untranslatable(f'{what}: have {e.ty}, need {ty}')

	def unwrap(self, e: E, exc: str, node=None) -> E:
		"""an Optional used as a value: raises when it is None, unless a test in scope excludes that"""
		inner = e.ty[1]
		lean = f'({e.lean}).getD {default(inner)}' if inner[0] != 'tuple' else f'({e.lean}).getD {default(inner)}'
		lean = f'({lean})'
		if node is not None and self.key(node) in self.narrow:
			return E(lean, inner, e.raises)
		return E(lean, inner, e.raises + [(f'({e.lean}).isNone', exc)])

	# ---- expressions -----------------------------------------------------------------------------
	def expr(self, n) -> E:
		# expressions over the repository's ORM objects that are read as a whole (exact text, declared per function)
		op = (self.d.get('opaque') or {}).get(ast.unparse(n))
		if op is not None:
			return E(op[0], op[1], list(op[2]) if len(op) > 2 else [])
		m = getattr(self, 'e_' + type(n).__name__, None)
		if m is None:
			raise Untranslatable(f'expression {type(n).__name__} at line {getattr(n, "lineno", "?")}')
		return m(n)

	def value(self, n, exc='TypeError') -> E:
		"""expression used as a non-Optional value"""
		e = self.expr(n)
		if e.ty[0] == 'opt':
			return self.unwrap(e, exc, n)
		return e

	def e_Constant(self, n):
		v = n.value
		if v is None: return E('none', NONE)
		if v is True: return E('true', BOOL)
		if v is False: return E('false', BOOL)
		if isinstance(v, int): return E(f'({v} : Int)', INT)
		if isinstance(v, bytes): return E('[' + ', '.join(str(b) for b in v) + ']', BYTES)
		if isinstance(v, str):
			if self.d.get('strings') == 'msg': return E(lean_str(v), MSG)
			return E(f'({lean_str(v)}).toList', STR)
		raise Untranslatable(f'constant {v!r}')

	def e_JoinedStr(self, n):
		# an f-string is a message for people: identified by its first literal piece (what is interpolated is not translated)
		if self.d.get('strings') != 'msg': raise Untranslatable('f-string outside a message')
		first = n.values[0].value if n.values and isinstance(n.values[0], ast.Constant) else ''
		return E(lean_str(first), MSG)

	def e_Name(self, n):
		x = n.id
		if x in self.vars:
			return E(f's.{x}', self.vars[x])
		if x == 'NUCLEOTIDES':
			return E('Py.NUCLEOTIDES', BYTES)
		if x == 'DEFAULT_KMERSPEC' and any(n == 'DFLT' for n, _ in self.d['env']):
			return E('DFLT', KSPEC)
		if x in self.consts:     # a module-level constant (literal)
			return self.expr(self.consts[x])
		raise Untranslatable(f'name {x}')

	def e_Attribute(self, n):
		if self.d.get('init') and isinstance(n.value, ast.Name) and n.value.id == 'self' and ('self_' + n.attr) in self.vars:
			return E(f's.self_{n.attr}', self.vars['self_' + n.attr])
		sa = self.d.get('self_attrs') or {}
		if isinstance(n.value, ast.Name) and n.value.id == 'self' and n.attr in sa:
			f, t = sa[n.attr]
			return E(f's.{f}', t)
		o = self.value(n.value, 'AttributeError')
		t, a = o.ty, n.attr
		if t[0] == 'rec':
			f = dict(RECORDS[t[1]]['fields'])
			if a not in f: raise Untranslatable(f'attribute .{a} of {t[1]}')
			return E(f'{o.lean}.{mangle(a)}', f[a], o.raises)
		if t == ('sigsrc',) and a == 'kmerspec':
			return E(o.lean, KSPEC, o.raises)      # a signature source is represented by the parameters it was computed with
		if t == ('sigs',) and a == 'values':
			return E(f'(Py.Sigs.values {o.lean})', ('arr',), o.raises)
		if t == ('arr',) and a == 'dtype':
			return E(f'{o.lean}.dtype', ('dtype',), o.raises)
		if t == ('dtype',) and a == 'itemsize':
			return E(f'(({o.lean}.size : Nat) : Int)', INT, o.raises)
		if t == ('db',) and a == 'genomes':
			return E('(List.range G.length)', LIST(GENOME), o.raises)
		if t == TAXON and a == 'distance_threshold':
			return E(f'(F.thrOf {o.lean})', OPT(NUM), o.raises)
		if t == TAXON and a == 'parent':
			return E(f'(F.parentOf {o.lean})', OPT(TAXON), o.raises)
		if t == TAXON and a == 'report':
			return E(f'(F.reportOf {o.lean})', BOOL, o.raises)
		if t == GENOME and a == 'taxon':
			return E(f'(G.getD {o.lean} 0)', TAXON, o.raises)
		if t == KSPEC and a == 'k':
			return E(f'{o.lean}.k', INT, o.raises)
		if t == KSPEC and a == 'prefix':
			return E(f'{o.lean}.pre', BYTES, o.raises)
		if t == KSPEC and a == 'prefix_len':
			return E(f'({o.lean}.pre.length : Int)', INT, o.raises)
		if t == KSPEC and a == 'total_len':
			return E(f'({o.lean}.k + ({o.lean}.pre.length : Int))', INT, o.raises)
		raise Untranslatable(f'attribute .{a} of {t}')

	def e_UnaryOp(self, n):
		if isinstance(n.op, ast.Not):
			a = self.truth(n.operand)
			return E(f'(!{a.lean})', BOOL, a.raises)
		if isinstance(n.op, ast.USub):
			a = self.value(n.operand)
			if a.ty != INT: raise Untranslatable('unary minus on ' + str(a.ty))
			return E(f'(-{a.lean})', INT, a.raises)
		raise Untranslatable('unary operator')

	def truth(self, n) -> E:
		"""truth value of an expression (`if x:` / `not x` / operands of and/or)"""
		e = self.expr(n)
		if e.ty == BOOL: return e
		if e.ty[0] in ('list', 'set', 'dict', 'bytes', 'str'): return E(f'(!({e.lean}).isEmpty)', BOOL, e.raises)
		if e.ty == INT: return E(f'(decide ({e.lean} ≠ 0))', BOOL, e.raises)
		if e.ty[0] == 'opt' and e.ty[1] in (TAXON, GENOME): return E(f'({e.lean}).isSome', BOOL, e.raises)
		if e.ty[0] == 'opt' and e.ty[1][0] in ('list', 'str'):     # None and the empty sequence are both false
			return E(f'(!(({e.lean}).getD []).isEmpty)', BOOL, e.raises)
		raise Untranslatable(f'truth value of {e.ty}')

	def e_BoolOp(self, n):
		saved = set(self.narrow)
		parts = []
		for i, v in enumerate(n.values):
			self.nohoist += 1 if i else 0
			try:
				parts.append(self.truth(v))
			finally:
				self.nohoist -= 1 if i else 0
			if isinstance(n.op, ast.And):
				self.narrow |= self.narrowing(v, True)
			else:
				self.narrow |= self.narrowing(v, False)
		self.narrow = saved
		op = '&&' if isinstance(n.op, ast.And) else '||'
		lean = parts[0].lean
		raises = list(parts[0].raises)
		for p in parts[1:]:
			reach = lean if op == '&&' else f'(!{lean})'
			raises += [(f'({reach} && {c})', k) for c, k in p.raises]
			lean = f'({lean} {op} {p.lean})'
		return E(lean, BOOL, raises)

	def narrowing(self, test, outcome: bool) -> set:
		"""keys of Optional expressions known non-None when `test` evaluates to `outcome`"""
		if isinstance(test, ast.Compare) and len(test.ops) == 1 and isinstance(test.comparators[0], ast.Constant) and test.comparators[0].value is None:
			if (isinstance(test.ops[0], ast.IsNot) and outcome) or (isinstance(test.ops[0], ast.Is) and not outcome):
				return {self.key(test.left)}
		if isinstance(test, ast.BoolOp) and isinstance(test.op, ast.And) and outcome:
			r = set()
			for v in test.values: r |= self.narrowing(v, True)
			return r
		if isinstance(test, ast.BoolOp) and isinstance(test.op, ast.Or) and not outcome:
			r = set()
			for v in test.values: r |= self.narrowing(v, False)
			return r
		if isinstance(test, ast.UnaryOp) and isinstance(test.op, ast.Not):
			return self.narrowing(test.operand, not outcome)
		if isinstance(test, ast.Name) and outcome and self.vars.get(test.id, ('',))[0] == 'opt':
			return {self.key(test)}
		return set()

	def e_Compare(self, n):
		# chains  a < b <= c  are conjunctions (each operand is evaluated once; operands here are side-effect free)
		items = [n.left] + list(n.comparators)
		out = None
		for op, l, r in zip(n.ops, items, items[1:]):
			c = self.compare1(op, l, r)
			if out is None:
				out = c
			else:
				out = E(f'({out.lean} && {c.lean})', BOOL, out.raises + [(f'({out.lean} && {cc})', k) for cc, k in c.raises])
		return out

	def compare1(self, op, l, r):
		isnone = lambda x: isinstance(x, ast.Constant) and x.value is None
		if isinstance(op, (ast.Is, ast.IsNot)):
			if not isnone(r): raise Untranslatable('`is` with something other than None')
			a = self.expr(l)
			if a.ty == ('pyobj',):
				return E(f'(Py.Obj.isNone {a.lean})' if isinstance(op, ast.Is) else f'(!(Py.Obj.isNone {a.lean}))', BOOL, a.raises)
			if a.ty[0] != 'opt': raise Untranslatable(f'`is None` on non-Optional {a.ty}')
			return E(f'({a.lean}).isNone' if isinstance(op, ast.Is) else f'({a.lean}).isSome', BOOL, a.raises)
		if isinstance(op, (ast.In, ast.NotIn)):
			a, b = self.value(l), self.value(r)
			if b.ty[0] in ('list', 'set') and b.ty[1] == a.ty or (b.ty == BYTES and a.ty == BYTE):
				lean = f'({b.lean}).contains {a.lean}'
			else:
				raise Untranslatable(f'`in` between {a.ty} and {b.ty}')
			return E(f'({lean})' if isinstance(op, ast.In) else f'(!({lean}))', BOOL, a.raises + b.raises)
		if isinstance(op, ast.NotEq) and isinstance(l, ast.Attribute) and l.attr in ('shape', 'dtype'):
			o = self.value(l.value)
			if o.ty == ('nd',) and l.attr == 'dtype' and ast.unparse(r) == 'SCORE_DTYPE':
				return E(f'(!({o.lean}).okDtype)', BOOL, o.raises)
			if o.ty == ('nd',) and l.attr == 'shape':
				sh = self.value(r)
				if sh.ty[0] == 'tuple' and all(t == INT for t in sh.ty[1]) and getattr(sh, 'parts', None):
					return E(f'(Py.ND.shapeNe {o.lean} [' + ', '.join(p.lean for p in sh.parts) + '])', BOOL, o.raises + sh.raises)
				if sh.ty == LIST(INT):
					return E(f'(Py.ND.shapeNe {o.lean} {sh.lean})', BOOL, o.raises + sh.raises)
		if isinstance(op, (ast.Eq, ast.NotEq)):
			ea, eb = self.expr(l), self.expr(r)
			if ea.ty[0] == 'opt' and eb.ty == ea.ty[1] and ea.ty[1] in (INT, NUM, STR, BOOL):
				lean = f'({ea.lean} == some {eb.lean})'
				return E(lean if isinstance(op, ast.Eq) else f'(!{lean})', BOOL, ea.raises + eb.raises)
		a, b = self.value(l), self.value(r)
		if a.ty == NUM and b.ty == NUMINF and isinstance(op, ast.Lt):
			return E(f'(match {b.lean} with | none => true | some b_ => decide ({a.lean} < b_))', BOOL, a.raises + b.raises)
		if a.ty == KSPEC and b.ty == KSPEC and isinstance(op, (ast.Eq, ast.NotEq)):
			return E(f'(decide ({a.lean} = {b.lean}))' if isinstance(op, ast.Eq) else f'(decide ({a.lean} ≠ {b.lean}))', BOOL, a.raises + b.raises)
		if ((a.ty == STR and b.ty == STR) or (a.ty == BYTES and b.ty == BYTES)) and isinstance(op, (ast.Eq, ast.NotEq)):
			return E(f'({a.lean} == {b.lean})' if isinstance(op, ast.Eq) else f'(!({a.lean} == {b.lean}))', BOOL, a.raises + b.raises)
		if a.ty != b.ty or a.ty not in (INT, NUM, TAXON, GENOME, BOOL, BYTE):
			raise Untranslatable(f'comparison between {a.ty} and {b.ty}')
		sym = {ast.Lt: '<', ast.LtE: '≤', ast.Gt: '>', ast.GtE: '≥', ast.Eq: '=', ast.NotEq: '≠'}.get(type(op))
		if sym is None: raise Untranslatable('comparison operator')
		return E(f'(decide ({a.lean} {sym} {b.lean}))', BOOL, a.raises + b.raises)

	def e_BinOp(self, n):
		if isinstance(n.op, ast.Mult) and isinstance(n.left, ast.List) and len(n.left.elts) == 1:
			a, b = E('[]', LIST(NONE)), self.value(n.right)
		else:
			a, b = self.value(n.left), self.value(n.right)
		if a.ty == INT and b.ty == INT:
			if isinstance(n.op, ast.Add): return E(f'({a.lean} + {b.lean})', INT, a.raises + b.raises)
			if isinstance(n.op, ast.Sub): return E(f'({a.lean} - {b.lean})', INT, a.raises + b.raises)
			if isinstance(n.op, ast.Mult): return E(f'({a.lean} * {b.lean})', INT, a.raises + b.raises)
			if isinstance(n.op, ast.Pow):    # a negative exponent would give a float: outside the subset, reported as an exception
				return E(f'({a.lean} ^ ({b.lean}).toNat)', INT, a.raises + b.raises + [(f'(decide ({b.lean} < 0))', 'Other')])
			if isinstance(n.op, ast.FloorDiv):
				return E(f'(Py.floorDiv {a.lean} {b.lean})', INT, a.raises + b.raises + [(f'(decide ({b.lean} = 0))', 'Other')])
			if isinstance(n.op, ast.Mod):
				return E(f'(Py.pyMod {a.lean} {b.lean})', INT, a.raises + b.raises + [(f'(decide ({b.lean} = 0))', 'Other')])
		if isinstance(n.op, ast.Mult) and isinstance(n.left, ast.List) and len(n.left.elts) == 1 and b.ty == INT:
			x = self.expr(n.left.elts[0])
			ty = self.list_hint or (LIST(x.ty) if x.ty != NONE else None)
			if ty is None: raise Untranslatable('element type of [None] * n is unknown')
			x = self.coerce(x, ty[1], 'repeated element')
			return E(f'(List.replicate ({b.lean}).toNat {x.lean})', ty, x.raises + b.raises)
		if a.ty == LIST(INT) and b.ty == INT and isinstance(n.op, ast.Sub):     # NumPy: array - scalar
			return E(f'(({a.lean}).map (fun (x_ : Int) => x_ - {b.lean}))', LIST(INT), a.raises + b.raises)
		if a.ty == STR and b.ty == STR and isinstance(n.op, ast.Div) and self.d.get('paths'):     # pathlib: Path(a) / b
			return E(f'(Py.pathJoin {a.lean} {b.lean})', STR, a.raises + b.raises)
		if a.ty == b.ty and a.ty[0] in ('list', 'bytes') and isinstance(n.op, ast.Add):
			return E(f'({a.lean} ++ {b.lean})', a.ty, a.raises + b.raises)
		raise Untranslatable(f'operator {type(n.op).__name__} on {a.ty}, {b.ty}')

	def e_IfExp(self, n):
		c = self.truth(n.test)
		saved = set(self.narrow)
		self.nohoist += 1
		try:
			self.narrow = saved | self.narrowing(n.test, True)
			a = self.expr(n.body)
			self.narrow = saved | self.narrowing(n.test, False)
			b = self.expr(n.orelse)
		finally:
			self.nohoist -= 1
		self.narrow = saved
		ty = a.ty
		if a.ty != b.ty:
			if a.ty == NONE and b.ty[0] != 'opt': ty = OPT(b.ty)
			elif b.ty == NONE and a.ty[0] != 'opt': ty = OPT(a.ty)
			elif {a.ty, b.ty} == {TUP(INT, INT), LIST(INT)}: ty = ('index',)
			elif a.ty[0] == 'tuple' and b.ty[0] == 'tuple' and all(t == INT for t in a.ty[1] + b.ty[1]): ty = LIST(INT)    # shapes
			elif a.ty[0] == 'opt': ty = a.ty
			elif b.ty[0] == 'opt': ty = b.ty
			else: raise Untranslatable(f'conditional expression of types {a.ty} / {b.ty}')
			a, b = self.coerce(a, ty), self.coerce(b, ty)
		return E(f'(if {c.lean} then {a.lean} else {b.lean})', ty,
		         c.raises + [(f'({c.lean} && {x})', k) for x, k in a.raises] + [(f'((!{c.lean}) && {x})', k) for x, k in b.raises])

	def e_Tuple(self, n):
		parts = [self.expr(x) for x in n.elts]
		e = E('(' + ', '.join(p.lean for p in parts) + ')', TUP(*[p.ty for p in parts]), guard_all(parts))
		e.parts = parts
		return e

	def e_List(self, n):
		if not n.elts:
			return E('[]', LIST(NONE))
		parts = [self.value(x) for x in n.elts]
		if any(p.ty != parts[0].ty for p in parts): raise Untranslatable('heterogeneous list display')
		return E('[' + ', '.join(p.lean for p in parts) + ']', LIST(parts[0].ty), guard_all(parts))

	def e_Subscript(self, n):
		if (isinstance(n.value, ast.Attribute) and n.value.attr == 'shape' and isinstance(n.slice, ast.Constant) and n.slice.value == 0):
			o = self.value(n.value.value)
			if o.ty[0] == 'list': return E(f'(({o.lean}).length : Int)', INT, o.raises)      # rows of a 2-d array
			raise Untranslatable(f'.shape[0] of {o.ty}')
		o = self.value(n.value)
		if (o.ty[0] == 'list' and o.ty[1][0] == 'tuple' and isinstance(n.slice, ast.Tuple) and len(n.slice.elts) == 2
				and isinstance(n.slice.elts[1], ast.Constant) and isinstance(n.slice.elts[1].value, int) and 0 <= n.slice.elts[1].value < len(o.ty[1][1])):
			# a[r, c] on a two-dimensional array given as a list of rows, c a literal column
			r = self.value(n.slice.elts[0])
			if r.ty != INT: raise Untranslatable('row index that is not an int')
			c, w = n.slice.elts[1].value, len(o.ty[1][1])
			proj = ''.join(['.2'] * c) + ('.1' if c < w - 1 else '')
			row = f'((Py.getItem? {o.lean} {r.lean}).getD {default(o.ty[1])})'
			return E(f'({row}){proj}', o.ty[1][1][c], o.raises + r.raises + [(f'(Py.getItem? {o.lean} {r.lean}).isNone', 'IndexError')])
		if o.ty == ('sigs',) and not isinstance(n.slice, ast.Slice):
			i = self.value(n.slice)
			if i.ty == INT:
				return E(f'((Py.getItem? (Py.Sigs.arrs {o.lean}) {i.lean}).getD default)', ('arr',),
				         o.raises + i.raises + [(f'(Py.getItem? (Py.Sigs.arrs {o.lean}) {i.lean}).isNone', 'IndexError')])
			ix = self.coerce(i, ('index',), 'index of a signature collection')
			return E(f'((Py.Sigs.get? {o.lean} {ix.lean}).getD default)', ('sigs',),
			         o.raises + ix.raises + [(f'(Py.Sigs.get? {o.lean} {ix.lean}).isNone', 'IndexError')])
		if (o.ty[0] == 'list' or o.ty == BYTES) and not isinstance(n.slice, ast.Slice):
			i0 = self.expr(n.slice)
			if i0.ty == TUP(INT, INT):       # xs[slice_object]
				return E(f'(Py.slice {o.lean} (some ({i0.lean}).1) (some ({i0.lean}).2))', o.ty, o.raises + i0.raises)
		if o.ty == ('nd',):
			get, _ = self.nd_view(n, o)
			return get
		if o.ty[0] == 'dict' and not isinstance(n.slice, ast.Slice):
			k = self.coerce(self.value(n.slice), o.ty[1], 'dict key')
			return E(f'((Py.dictGet? {o.lean} {k.lean}).getD {default(o.ty[2])})', o.ty[2],
			         o.raises + k.raises + [(f'(Py.dictGet? {o.lean} {k.lean}).isNone', 'KeyError')])
		if o.ty[0] not in ('list', 'bytes', 'str'):
			raise Untranslatable(f'subscript of {o.ty}')
		elt = BYTE if o.ty == BYTES else CHAR if o.ty == STR else o.ty[1]
		if isinstance(n.slice, ast.Slice):
			if n.slice.step is not None: raise Untranslatable('slice with a step')
			lo = self.value(n.slice.lower) if n.slice.lower is not None else None
			hi = self.value(n.slice.upper) if n.slice.upper is not None else None
			for b in (lo, hi):
				if b is not None and b.ty != INT: raise Untranslatable('slice bound that is not an int')
			f = lambda b: f'(some {b.lean})' if b is not None else 'none'
			return E(f'(Py.slice {o.lean} {f(lo)} {f(hi)})', o.ty, o.raises + guard_all([b for b in (lo, hi) if b is not None]))
		i = self.value(n.slice)
		if i.ty != INT: raise Untranslatable('index that is not an int')
		return E(f'((Py.getItem? {o.lean} {i.lean}).getD {default(elt)})', elt,
		         o.raises + i.raises + [(f'(Py.getItem? {o.lean} {i.lean}).isNone', 'IndexError')])

	def view_put(self, node):
		"""(name of the local base array, function src -> expression of the base with the view replaced) for a view expression, or a
		conditional expression choosing between two views of the same base"""
		if isinstance(node, ast.IfExp):
			c = self.truth(node.test)
			if c.raises: raise Untranslatable('conditional view whose test can raise')
			b1, p1 = self.view_put(node.body)
			b2, p2 = self.view_put(node.orelse)
			if b1 != b2: raise Untranslatable('conditional view of two different arrays')
			return b1, (lambda src: f'(if {c.lean} then {p1(src)} else {p2(src)})')
		if isinstance(node, ast.Subscript) and isinstance(node.value, ast.Name) and node.value.id in self.vars:
			_, put = self.nd_view(node)
			return node.value.id, put
		raise Untranslatable(f'out= argument {ast.unparse(node)} is not a view of a local array')

	def nd_view(self, n, o=None):
		"""a basic-slicing view of a distance array: (expression for its contents as a 1-d array, function src -> expression of the base array
		with the view's cells replaced by src).  Forms:  a[lo:hi]   a[i, lo:hi]   a[i, slice_object]"""
		if o is None: o = self.value(n.value)
		if o.ty != ('nd',): raise Untranslatable(f'view of {o.ty}')
		sl = n.slice
		def bounds(x):
			if isinstance(x, ast.Slice):
				if x.step is not None or x.lower is None or x.upper is None: raise Untranslatable('array slice without both bounds / with a step')
				lo, hi = self.value(x.lower), self.value(x.upper)
				if lo.ty != INT or hi.ty != INT: raise Untranslatable('array slice bounds')
				return lo.lean, hi.lean, lo.raises + hi.raises
			e = self.value(x)
			if e.ty != TUP(INT, INT): raise Untranslatable(f'array index of type {e.ty}')
			return f'({e.lean}).1', f'({e.lean}).2', e.raises
		if isinstance(sl, ast.Slice):
			lo, hi, rs = bounds(sl)
			return (E(f'(Py.ND.view1 {o.lean} {lo} {hi})', ('nd',), o.raises + rs),
			        lambda src: f'(Py.ND.put1 {o.lean} {lo} {hi} {src})')
		if isinstance(sl, ast.Tuple) and len(sl.elts) == 2:
			i = self.value(sl.elts[0])
			if i.ty == INT:
				lo, hi, rs = bounds(sl.elts[1])
				return (E(f'(Py.ND.rowView {o.lean} {i.lean} {lo} {hi})', ('nd',),
				          o.raises + i.raises + rs + [(f'(Py.getItem? ({o.lean}).rows {i.lean}).isNone', 'IndexError')]),
				        lambda src: f'(Py.ND.putRow {o.lean} {i.lean} {lo} {hi} {src})')
		raise Untranslatable(f'array view {ast.unparse(n)}')

	def e_DictComp(self, n):
		if len(n.generators) != 1 or n.generators[0].ifs or n.generators[0].is_async: raise Untranslatable('dict comprehension with conditions / several generators')
		g = n.generators[0]
		xs = self.value(g.iter)
		if not (xs.ty[0] == 'list' and xs.ty[1][0] == 'tuple' and len(xs.ty[1][1]) == 2 and isinstance(g.target, ast.Tuple) and len(g.target.elts) == 2
		        and all(isinstance(t, ast.Name) for t in g.target.elts) and isinstance(n.key, ast.Name) and isinstance(n.value, ast.Name)):
			raise Untranslatable('dict comprehension that is not {k: v for a, b in pairs}')
		a, b = (t.id for t in g.target.elts)
		ta, tb = xs.ty[1][1]
		if (n.key.id, n.value.id) == (a, b):
			return E(f'(Py.dictFromPairs {xs.lean})', DICT(ta, tb), xs.raises)
		if (n.key.id, n.value.id) == (b, a):
			return E(f'(Py.dictFromPairs (({xs.lean}).map (fun p => (p.2, p.1))))', DICT(tb, ta), xs.raises)
		raise Untranslatable('dict comprehension whose key / value are not the loop names')

	def e_SetComp(self, n):
		return self.comp(n, SET)

	def e_ListComp(self, n):
		return self.comp(n, LIST)

	def comp(self, n, mk):
		if len(n.generators) != 1 or n.generators[0].is_async: raise Untranslatable('comprehension with several generators')
		g = n.generators[0]
		if not isinstance(g.target, ast.Name) or not isinstance(n.elt, ast.Name) or n.elt.id != g.target.id:
			raise Untranslatable('comprehension that is not a filter `{x for x in xs if c}`')
		xs = self.value(g.iter)
		if xs.ty[0] not in ('list', 'set'): raise Untranslatable('comprehension over ' + str(xs.ty))
		x = g.target.id
		if x in self.vars: raise Untranslatable(f'comprehension variable {x} shadows a local')
		# the condition may mention x: translate with x bound to a lambda variable
		self.vars[x] = xs.ty[1]
		try:
			conds = [self.truth(c) for c in g.ifs]
		finally:
			del self.vars[x]
		if guard_all(conds): raise Untranslatable('comprehension condition that can raise')
		body = ' && '.join(re.sub(rf'\bs\.{x}\b', f'x_{x}', c.lean) for c in conds) or 'true'
		lean = f'(({xs.lean}).filter (fun x_{x} => {body}))'
		if mk is SET and xs.ty[0] != 'set':
			lean = f'({lean}).eraseDups'
		return E(lean, mk(xs.ty[1]), xs.raises)

	def e_Call(self, n):
		f = n.func
		args = n.args
		kw = {k.arg: k.value for k in n.keywords}
		if isinstance(f, ast.Name):
			name = f.id
			if name == 'len' and len(args) == 1:
				if isinstance(args[0], ast.Name) and args[0].id == 'self' and self.d.get('self_len_expr'):
					return E(self.d['self_len_expr'], INT)
				if isinstance(args[0], ast.Name) and args[0].id == 'self' and self.d.get('self_len'):
					return E(f's.{self.d["self_len"]}', INT)
				a = self.value(args[0])
				if a.ty == ('sigs',): return E(f'(({a.lean}).items.length : Int)', INT, a.raises)
				if a.ty[0] not in ('list', 'set', 'dict', 'bytes', 'str'): raise Untranslatable(f'len of {a.ty}')
				return E(f'(({a.lean}).length : Int)', INT, a.raises)
			if (name == 'list' and len(args) == 1 and isinstance(args[0], ast.Call) and isinstance(args[0].func, ast.Name) and args[0].func.id == 'map'
					and len(args[0].args) == 2 and not args[0].keywords and isinstance(args[0].args[0], ast.Name)):
				fn_, xs = args[0].args[0].id, self.value(args[0].args[1])
				if xs.ty != LIST(STR): raise Untranslatable(f'map over {xs.ty}')
				if fn_ == 'str': return E(xs.lean, LIST(STR), xs.raises)        # str of text (of a path in normal form: its text)
				if fn_ in (self.d.get('calls') or {}):
					tmpl, ty, rs = self.d['calls'][fn_]
					if rs or ty != STR: raise Untranslatable(f'map({fn_}, …): only total text functions')
					return E(f'(({xs.lean}).map (fun x_ => {tmpl.format("x_")}))', LIST(STR), xs.raises)
				raise Untranslatable(f'map({fn_}, …)')
			if name == 'list' and len(args) == 1:
				a = self.value(args[0])
				if a.ty[0] in ('list', 'set'): return E(a.lean, LIST(a.ty[1]), a.raises)
				raise Untranslatable(f'list() of {a.ty}')
			if name == 'set' and len(args) == 1:
				a = self.value(args[0])
				if a.ty[0] in ('list', 'set'): return E(f'({a.lean}).eraseDups', SET(a.ty[1]), a.raises)
				raise Untranslatable(f'set() of {a.ty}')
			if name == 'set' and not args: return E('[]', SET(NONE))
			if name == 'dict' and not args: return E('[]', ('dict', NONE, NONE))
			if name == 'str' and len(args) == 1 and not kw:
				a = self.value(args[0])
				if a.ty == STR: return a        # str() of text is the text itself
				raise Untranslatable(f'str() of {a.ty}')
			if name == 'int' and len(args) == 1:
				a = self.value(args[0])
				if a.ty == INT: return a
				raise Untranslatable(f'int() of {a.ty}')
			if name == 'slice' and len(args) == 2:
				a, b = self.value(args[0]), self.value(args[1])
				if a.ty != INT or b.ty != INT: raise Untranslatable('slice() of non-ints')
				e = E(f'({a.lean}, {b.lean})', TUP(INT, INT), a.raises + b.raises)
				e.parts = [a, b]
				return e
			if name in (self.d.get('calls') or {}) and sorted(f'{k}={ast.unparse(v)}' for k, v in kw.items()) == sorted((self.d.get('call_kw') or {}).get(name, [])):
				# a helper modelled by a template: (lean with {0}…, type, [(raise condition with {0}…, exception)])
				tmpl, ty, rs = self.d['calls'][name]
				a = [self.expr(x) for x in args]
				if name == 'Path' and self.d.get('paths'):      # Path(None) raises TypeError
					a = [self.coerce(x, STR, 'argument of Path()') for x in a]
				return E(tmpl.format(*[x.lean for x in a]), ty, guard_all(a) + [(c.format(*[x.lean for x in a]), k) for c, k in rs])
			if name in self.known:
				if self.nohoist: raise Untranslatable(f'call of {name} in a conditionally evaluated operand')
				call, ty, raises = self.call_known(n)
				self.nv += 1
				self.pre.append((f'v{self.nv}', call, raises))
				return E(f'v{self.nv}', ty)
			if name in ('all', 'any') and len(args) == 1 and isinstance(args[0], ast.GeneratorExp) and len(args[0].generators) == 1:
				g = args[0].generators[0]
				if g.ifs or not isinstance(g.target, ast.Name): raise Untranslatable(f'{name}() over a filtered / unpacking generator')
				xs = self.value(g.iter)
				if xs.ty[0] not in ('list', 'set'): raise Untranslatable(f'{name}() over {xs.ty}')
				x = g.target.id
				if x in self.vars: raise Untranslatable(f'generator variable {x} shadows a local')
				self.vars[x] = xs.ty[1]
				try:
					c = self.truth(args[0].elt)
				finally:
					del self.vars[x]
				if c.raises: raise Untranslatable(f'{name}() of a condition that can raise')
				body = re.sub(rf'\bs\.{x}\b', f'x_{x}', c.lean)
				return E(f'(({xs.lean}).{name} (fun x_{x} => {body}))', BOOL, xs.raises)
			if name == 'isinstance' and len(args) == 2 and isinstance(args[1], ast.Name) and args[1].id == 'str' and isinstance(args[0], ast.Name):
				a = self.value(args[0])      # decided by the declared translation type of the name
				if a.ty == STR: return E('true', BOOL, a.raises)
				if a.ty == LIST(STR): return E('false', BOOL, a.raises)
				raise Untranslatable(f'isinstance(…, str) of {a.ty}')
			if name == 'getattr' and len(args) == 2 and not kw:
				o, a = self.value(args[0]), self.value(args[1])
				if o.ty != ('pyobj',) or a.ty != STR: raise Untranslatable(f'getattr of {o.ty}, {a.ty}')
				return E(f'((Py.Obj.getattr? {o.lean} {a.lean}).getD Py.Obj.none)', ('pyobj',),
				         o.raises + a.raises + [(f'(Py.Obj.getattr? {o.lean} {a.lean}).isNone', 'AttributeError')])
			if name == 'isinstance' and len(args) == 2 and isinstance(args[1], ast.Name) and args[1].id == 'SEQ_TYPES':
				a = self.value(args[0])
				if a.ty == LIST(BYTES): return E('false', BOOL, a.raises)     # a list of sequences is not itself a sequence
				if a.ty == BYTES: return E('true', BOOL, a.raises)
				raise Untranslatable(f'isinstance(…, SEQ_TYPES) of {a.ty}')
			if name == 'isinstance' and len(args) == 2 and isinstance(args[1], ast.Name) and args[1].id in ('SignatureArray', 'AbstractSignatureArray'):
				a = self.value(args[0])
				if a.ty != ('sigs',): raise Untranslatable(f'isinstance of {a.ty}')
				return E(f'(decide (({a.lean}).kind = 2))' if args[1].id == 'SignatureArray' else f'(decide (1 ≤ ({a.lean}).kind))', BOOL, a.raises)
			if name == 'SignatureList' and len(args) == 1 and not kw and self.d.get('arrays'):
				a = self.value(args[0])
				if a.ty != ('sigs',): raise Untranslatable(f'SignatureList of {a.ty}')
				return E(f'({{ {a.lean} with kind := 1 }} : Py.Sigs)', ('sigs',), a.raises)
			if name == 'Tree' and not args and set(kw) == {'root', 'rooted'} and ast.unparse(kw['rooted']) == 'True':
				return self.expr(kw['root'])      # a rooted tree is represented by its root clade
			if name == 'KmerSpec' and len(args) == 2 and not kw:
				a, b = self.value(args[0]), self.value(args[1])
				if a.ty != INT or b.ty != BYTES: raise Untranslatable('KmerSpec argument types')
				# KmerSpec.__init__: k >= 1, the prefix upper-cased and over ACGT
				return E(f'({{ k := {a.lean}, pre := GambitV.upper {b.lean} }} : Py.KSpec)', KSPEC,
				         a.raises + b.raises + [(f'(decide ({a.lean} < 1))', 'ValueError'), (f'(!(Py.validDna (GambitV.upper {b.lean})))', 'ValueError')])
			if name == 'validate_dna_seq_bytes' and len(args) == 1 and not kw:
				a = self.value(args[0])
				if a.ty != BYTES: raise Untranslatable('validate_dna_seq_bytes of ' + str(a.ty))
				return E('()', ('obj',), a.raises + [(f'(!(Py.validDna {a.lean}))', 'ValueError')])
			if name == 'float' and len(args) == 1 and isinstance(args[0], ast.Constant) and args[0].value == 'inf':
				return E('none', NUMINF)
			if name == 'zip_strict' and len(args) == 2 and not kw:
				a, b = self.value(args[0]), self.value(args[1])
				if a.ty[0] != 'list' or b.ty[0] != 'list': raise Untranslatable('zip_strict of non-lists')
				return E(f'(List.zip {a.lean} {b.lean})', LIST(TUP(a.ty[1], b.ty[1])),
				         a.raises + b.raises + [(f'(decide (({a.lean}).length ≠ ({b.lean}).length))', 'ValueError')])
			if name in RECORDS:
				spec = RECORDS[name]
				fields = dict(spec['fields'])
				if set(kw) - set(fields): raise Untranslatable(f'{name}() with unknown fields {sorted(set(kw) - set(fields))}')
				if len(args) > len(spec['fields']): raise Untranslatable(f'{name}() with too many arguments')
				given = {fname: a for (fname, _), a in zip(spec['fields'], args)}
				if set(given) & set(kw): raise Untranslatable(f'{name}() field given twice')
				given.update(kw)
				vals, parts, raises = {}, [], []
				for fname, fty in spec['fields']:
					if fname in given:
						e = self.coerce(self.expr(given[fname]), fty, f'{name}.{fname}')
						vals[fname] = e
						parts.append(f'{mangle(fname)} := {e.lean}'); raises += e.raises
					elif fname in spec['defaults'] and isinstance(spec['defaults'][fname], tuple):
						# a default computed from the other fields by another translated function
						_, fn, argspecs = spec['defaults'][fname]
						if fn not in self.known: raise Untranslatable(f'default of {name}.{fname} needs {fn}')
						if self.nohoist: raise Untranslatable(f'{name}() with a computed default in a conditionally evaluated operand')
						d = self.known[fn]
						self.calls.add(d['module'])
						self.callees.add(d['name'])
						largs = []
						for a in argspecs:
							base, _, attr = a.partition('.')
							v = vals[base].lean
							if attr == 'taxon': v = f'(G.getD {v} 0)'
							largs.append(v)
						for en in d['env']:
							if en not in self.d['env']: raise Untranslatable(f'{fn} needs environment {en[0]}')
						self.nv += 1
						self.pre.append((f'v{self.nv}', f'({fn} ' + ' '.join([en[0] for en in d['env']] + largs) + ')', list(raises)))
						parts.append(f'{mangle(fname)} := v{self.nv}')
					elif fname in spec['defaults']:
						parts.append(f'{mangle(fname)} := {spec["defaults"][fname]}')
					else:
						raise Untranslatable(f'{name}() without {fname}')
				return E('({ ' + ', '.join(parts) + f' }} : Py.{name})', REC(name), raises)
			if name == 'seq_to_bytes' and len(args) == 1:
				a = self.value(args[0])
				if a.ty == BYTES: return a
				raise Untranslatable('seq_to_bytes of ' + str(a.ty))
			if name == 'revcomp' and len(args) == 1:
				a = self.value(args[0])
				if a.ty == BYTES: return E(f'(GambitV.revcomp {a.lean})', BYTES, a.raises)
			if name == 'KmerMatch' and len(args) == 4:
				# KmerMatch(kmerspec, seq, pos, reverse): only the two fields that vary are kept; the first two must be the function's own
				if not (isinstance(args[0], ast.Name) and args[0].id == 'kmerspec' and isinstance(args[1], ast.Name) and args[1].id == 'seq'):
					raise Untranslatable('KmerMatch built from something other than (kmerspec, seq, …)')
				a, b = self.value(args[2]), self.value(args[3])
				if a.ty != INT or b.ty != BOOL: raise Untranslatable('KmerMatch fields')
				e = E(f'({a.lean}, {b.lean})', TUP(INT, BOOL), a.raises + b.raises)
				e.parts = [a, b]
				return e
			raise Untranslatable(f'call of {name}')
		if (isinstance(f, ast.Attribute) and isinstance(f.value, ast.Attribute) and isinstance(f.value.value, ast.Name)
				and (f.value.value.id, f.value.attr, f.attr) == ('os', 'path', 'basename') and len(args) == 1 and not kw):
			a = self.value(args[0])
			if a.ty != STR: raise Untranslatable('os.path.basename of ' + str(a.ty))
			return E(f'(GambitV.basename {a.lean})', STR, a.raises)
		if ast.unparse(f) == 'SignatureArray.from_arrays' and len(args) == 3 and not kw and ast.unparse(args[2]) == 'self.kmerspec':
			a, b = self.value(args[0]), self.value(args[1])
			if a.ty != LIST(INT) or b.ty != LIST(INT): raise Untranslatable('SignatureArray.from_arrays argument types')
			return E(f'({{ values := {a.lean}, bounds := {b.lean} }} : Py.CArr)', ('carr',), a.raises + b.raises)
		if (ast.unparse(f) == 'SignatureArray.uninitialized' and len(args) == 2 and ast.unparse(args[1]) == 'self.kmerspec'
				and [f'{k}={ast.unparse(v)}' for k, v in kw.items()] == ['dtype=self.values.dtype']):
			a = self.value(args[0])
			if a.ty != LIST(INT): raise Untranslatable('SignatureArray.uninitialized argument types')
			return E(f'(Py.CArr.uninitialized {a.lean})', ('carr',), a.raises)
		if isinstance(f, ast.Attribute) and isinstance(f.value, ast.Name) and f.value.id == '_cmetric' and f.attr in ('jaccard', 'jaccarddist') and len(args) == 2 and not kw:
			# the compiled kernels (tied to the model by Tie.Metric): fused over the three unsigned types, compared as zero-extended values
			a, b = self.value(args[0]), self.value(args[1])
			if a.ty != ('arr',) or b.ty != ('arr',): raise Untranslatable(f'_cmetric.{f.attr} of {a.ty}, {b.ty}')
			fn = 'GambitV.jaccardBits' if f.attr == 'jaccarddist' else 'GambitV.jaccardIndexBits'
			return E(f'({fn} {a.lean}.natVals {b.lean}.natVals)', ('score',),
			         a.raises + b.raises + [(f'(!({a.lean}.dtype.kernelOk && {b.lean}.dtype.kernelOk))', 'TypeError')])
		if isinstance(f, ast.Attribute) and isinstance(f.value, ast.Name) and f.value.id in ('ckmers', 'np', 'os'):
			mod, m = f.value.id, f.attr
			if mod == 'os' and m == 'fspath' and len(args) == 1 and not kw:
				a = self.value(args[0])
				if a.ty != STR: raise Untranslatable('os.fspath of ' + str(a.ty))
				return a
			if mod == 'np' and m == 'arange' and len(args) == 3 and not kw:
				a = [self.value(x) for x in args]
				if any(x.ty != INT for x in a): raise Untranslatable('np.arange of non-ints')
				return E(f'(GambitV.arange {a[0].lean} {a[1].lean} {a[2].lean})', LIST(INT), guard_all(a))
			if mod == 'np' and m == 'flatnonzero' and len(args) == 1 and not kw:
				a = self.value(args[0])
				if a.ty != LIST(BOOL): raise Untranslatable('np.flatnonzero of ' + str(a.ty))
				return E(f'((GambitV.flatnonzero {a.lean}).map (fun (j : Nat) => (j : Int)))', LIST(INT), a.raises)
			if mod == 'np' and m == 'asarray' and len(args) == 1 and not kw:
				a = self.value(args[0])
				if a.ty == LIST(INT): return a
				raise Untranslatable(f'np.asarray of {a.ty}')
			if mod == 'np' and m == 'empty' and len(args) == 2 and not kw and ast.unparse(args[1]) == 'SCORE_DTYPE':
				sh = self.value(args[0])
				if sh.ty == INT: return E(f'(Py.ND.empty [{sh.lean}])', ('nd',), sh.raises)
				if sh.ty == LIST(INT): return E(f'(Py.ND.empty {sh.lean})', ('nd',), sh.raises)
				if sh.ty[0] == 'tuple' and all(t == INT for t in sh.ty[1]) and getattr(sh, 'parts', None):
					return E('(Py.ND.empty [' + ', '.join(p.lean for p in sh.parts) + '])', ('nd',), sh.raises)
				raise Untranslatable(f'np.empty of shape {sh.ty}')
			if mod == 'np' and m == 'argsort' and len(args) == 1:
				# only the stable sort has a defined result on ties
				if set(kw) != {'kind'} or not (isinstance(kw['kind'], ast.Constant) and kw['kind'].value in ('stable', 'mergesort')):
					raise Untranslatable('np.argsort without kind=\'stable\' (the order of equal keys is unspecified)')
				a = self.value(args[0])
				if a.ty != LIST(NUM): raise Untranslatable('np.argsort of ' + str(a.ty))
				return E(f'((GambitV.stableArgsort {a.lean}).map (fun (i : Nat) => (i : Int)))', LIST(INT), a.raises)
			if mod == 'np' and m == 'argmin' and len(args) == 1 and not kw:
				a = self.value(args[0])
				if a.ty != LIST(NUM): raise Untranslatable('np.argmin of ' + str(a.ty))
				return E(f'((GambitV.argminFirst {a.lean} : Nat) : Int)', INT, a.raises + [(f'({a.lean}).isEmpty', 'ValueError')])
			if mod == 'ckmers' and m in ('kmer_to_index', 'kmer_to_index_rc') and len(args) == 1 and not kw:
				# the compiled encoder (tied to the model by Tie.Kmers): a ValueError for an invalid byte or more than 32 bytes
				a = self.value(args[0])
				if a.ty != BYTES: raise Untranslatable(f'{mod}.{m} of {a.ty}')
				fn = 'GambitV.kmerToIndex' if m == 'kmer_to_index' else 'GambitV.kmerToIndexRc'
				return E(f'((match {fn} {a.lean} with | .ok i => i | .error _ => 0 : Nat) : Int)', INT,
				         a.raises + [(f'(match {fn} {a.lean} with | .ok _ => false | .error _ => true)', 'ValueError')])
			if mod == 'np' and m == 'dtype' and len(args) == 1 and self.d.get('dtype_as') == 'record':
				a0 = args[0]
				if isinstance(a0, ast.Constant) and isinstance(a0.value, str) and len(a0.value) == 2 and a0.value[0] in 'ui' and a0.value[1] in '1248':
					return E(f"({{ kind := '{a0.value[0]}', size := {a0.value[1]}, native := true }} : Py.DType)", ('dtype',))
				if (isinstance(a0, ast.JoinedStr) and len(a0.values) == 2 and isinstance(a0.values[0], ast.Constant) and a0.values[0].value in ('u', 'i')
						and isinstance(a0.values[1], ast.FormattedValue) and a0.values[1].format_spec is None and a0.values[1].conversion == -1):
					sz = self.value(a0.values[1].value)
					if sz.ty != INT: raise Untranslatable('np.dtype(f"…{x}") with a non-integer x')
					return E(f"({{ kind := '{a0.values[0].value}', size := ({sz.lean}).toNat, native := true }} : Py.DType)", ('dtype',), sz.raises)
				raise Untranslatable(f'np.dtype({ast.unparse(a0)})')
			if mod == 'np' and m == 'dtype' and len(args) == 1 and isinstance(args[0], ast.Constant) and args[0].value in ('u1', 'u2', 'u4', 'u8'):
				# an unsigned NumPy type is represented by its item size in bytes
				return E(f'({int(args[0].value[1])} : Int)', INT)
			raise Untranslatable(f'call of {mod}.{m}')
		if (isinstance(f, ast.Attribute) and f.attr == 'astype' and isinstance(f.value, ast.Attribute) and f.value.attr == 'bounds'
				and [ast.unparse(x) for x in args] + [f'{k}={ast.unparse(v)}' for k, v in kw.items()] == ['BOUNDS_DTYPE', 'copy=False']):
			o = self.value(f.value.value)
			if o.ty != ('sigs',): raise Untranslatable(f'.bounds of {o.ty}')
			return E(f'(Py.Sigs.bounds {o.lean})', LIST(INT), o.raises)
		if self.self_call(n) is not None or (isinstance(f, ast.Attribute) and self.obj_call(n) is not None):
			if self.nohoist: raise Untranslatable(f'call of {ast.unparse(f)} in a conditionally evaluated operand')
			call, ty, raises = self.call_known(n)
			self.nv += 1
			self.pre.append((f'v{self.nv}', call, raises))
			return E(f'v{self.nv}', ty)
		if isinstance(f, ast.Attribute):
			o = self.value(f.value, 'AttributeError')
			m = f.attr
			mt = (self.d.get('methods') or {}).get((o.ty[0], m))
			if mt is not None:
				# a method of a modelled object: (lean template with {self}, {0}…; type; [(raise condition, exception)]; expected argument texts or None)
				tmpl, ty, rs, want = mt
				if want is not None and [ast.unparse(x) for x in args] + [f'{k}={ast.unparse(v)}' for k, v in kw.items()] != want:
					raise Untranslatable(f'.{m}({", ".join(ast.unparse(x) for x in args)}) — expected .{m}({", ".join(want)})')
				a = [self.expr(x) for x in args] if want is None else []
				fmt = lambda t: t.format(*[x.lean for x in a], self=o.lean)
				return E(fmt(tmpl), ty, o.raises + guard_all(a) + [(fmt(c), k) for c, k in rs])
			if o.ty == TAXON and m == 'ancestors':
				inc = kw.get('incself') or (args[0] if args else None)
				if inc is None: inc = ast.Constant(False)
				if not (isinstance(inc, ast.Constant) and isinstance(inc.value, bool)):
					raise Untranslatable('ancestors(incself=<non-literal>)')
				return E(f'(F.lineage {o.lean})' if inc.value else f'(F.properAncestors {o.lean})', LIST(TAXON), o.raises)
			if o.ty[0] == 'list' and m == 'index' and len(args) == 1:
				a = self.coerce(self.value(args[0]), o.ty[1], 'argument of index()')
				return E(f'(((Py.index? {o.lean} {a.lean}).getD 0 : Nat) : Int)', INT,
				         o.raises + a.raises + [(f'(Py.index? {o.lean} {a.lean}).isNone', 'ValueError')])
			if o.ty == BYTES and m == 'find' and 1 <= len(args) <= 3:
				a = [self.value(x) for x in args]
				if a[0].ty != BYTES or any(x.ty != INT for x in a[1:]): raise Untranslatable('bytes.find argument types')
				start = a[1].lean if len(a) > 1 else '(0 : Int)'
				stop = f'(some {a[2].lean})' if len(a) > 2 else 'none'
				return E(f'(Py.bytesFind {o.lean} {a[0].lean} {start} {stop})', INT, o.raises + guard_all(a))
			if o.ty == STR and m == 'strip' and not args and not kw: return E(f'(Py.strStrip {o.lean})', STR, o.raises)
			if (o.ty == STR and m == 'rstrip' and len(args) == 1 and not kw and isinstance(args[0], ast.Constant) and isinstance(args[0].value, str)
					and len(args[0].value) == 1):
				return E(f'(Py.strRstripChar {lean_char(args[0].value)} {o.lean})', STR, o.raises)
			if o.ty == STR and m == 'split' and len(args) == 1 and not kw and isinstance(args[0], ast.Constant) and isinstance(args[0].value, str) and len(args[0].value) == 1:
				return E(f'(Py.splitOnChar {lean_char(args[0].value)} {o.lean})', LIST(STR), o.raises)
			if o.ty == BYTES and m == 'upper' and not args: return E(f'(GambitV.upper {o.lean})', BYTES, o.raises)
			if o.ty == BYTES and m == 'lower' and not args: return E(f'(Py.lower {o.lean})', BYTES, o.raises)
			if o.ty[0] == 'dict' and m == 'keys' and not args: return E(f'(({o.lean}).map (·.1))', LIST(o.ty[1]), o.raises)
			if o.ty == TUP(OPT(INT), OPT(INT), OPT(INT)) and m == 'indices' and len(args) == 1 and not kw:
				nn = self.value(args[0])
				if nn.ty != INT: raise Untranslatable('slice.indices of a non-int')
				e = E(f'(GambitV.sliceIndices ({nn.lean}).toNat ({o.lean}).1 ({o.lean}).2.1 ({o.lean}).2.2)', TUP(INT, INT, INT),
				      o.raises + nn.raises + [(f'(({o.lean}).2.2 == some 0)', 'ValueError')])
				return e
			if o.ty == STR and m == 'upper' and not args: return E(f'(Py.strUpper {o.lean})', STR, o.raises)
			if o.ty == STR and m == 'encode' and [ast.unparse(x) for x in args] == ["'ascii'"] and not kw:
				return E(f'(Py.encodeAscii {o.lean})', BYTES, o.raises + [(f'(!(Py.isAscii {o.lean}))', 'Other')])
			if o.ty == ('acc',) and m == 'signature' and not args and not kw:
				return E(f'(Py.Acc.signature {o.lean})', LIST(INT), o.raises)
			if o.ty == ('arr',) and m == 'view' and len(args) == 1 and not kw:
				a = self.value(args[0])
				if a.ty != ('dtype',): raise Untranslatable('view() with something other than a dtype')
				return E(f'(Py.Arr.view {o.lean} {a.lean})', ('arr',), o.raises + a.raises + [(f'(decide ({o.lean}.dtype.size ≠ {a.lean}.size))', 'Other')])
			if o.ty[0] == 'dict' and m == 'get' and len(args) == 1 and not kw:
				k = self.coerce(self.value(args[0]), o.ty[1], 'dict key')
				return E(f'(Py.dictGet? {o.lean} {k.lean})', OPT(o.ty[2]), o.raises + k.raises)
			if o.ty[0] == 'dict' and m == 'items' and not args: return E(o.lean, LIST(TUP(o.ty[1], o.ty[2])), o.raises)
			if o.ty == STR and m == 'endswith' and len(args) == 1:
				a = self.value(args[0])
				if a.ty != STR: raise Untranslatable('endswith of ' + str(a.ty))
				return E(f'(GambitV.endsWith {o.lean} {a.lean})', BOOL, o.raises + a.raises)
			raise Untranslatable(f'method .{m} of {o.ty}')
		raise Untranslatable('call of a computed function')

	# ---- statements ------------------------------------------------------------------------------
	def guards(self, raises, ind):
		return ''.join(f'{ind}let _ ← Py.guard {c} .{k}\n' for c, k in raises)

	def assign(self, name, e: E, ind) -> str:
		if e.ty == ('dict', NONE, NONE) and name not in self.vars and name not in self.empty_types:
			self.vars[name] = ('dict', NONE, NONE); self.order.append(name)      # typed by its first item assignment (pass 1)
			return ''
		if e.ty == ('dict', NONE, NONE) or e.ty == LIST(NONE) or e.ty == SET(NONE):
			# empty container: the element type comes from the declared return type / later use
			want = self.empty_types.get(name) or self.vars.get(name)
			if want is None: raise Untranslatable(f'element type of the empty container assigned to {name} is unknown')
			e = E('[]', want, e.raises)
		self.declare(name, e.ty)
		was_opt = e.ty[0] != 'opt' and e.ty != NONE
		e = self.coerce(e, self.vars[name], f'assignment to {name}')
		self.narrow = {k for k in self.narrow if f"id='{name}'" not in k}
		if was_opt and self.vars[name][0] == 'opt':
			self.narrow.add(ast.dump(ast.Name(id=name, ctx=ast.Load())))      # just assigned a value that is not None
		return self.guards(e.raises, ind) + f'{ind}let s : St := {{ s with {name} := {e.lean} }}\n'

	def block(self, stmts, ind) -> str:
		"""Lean term `fun s => do …` of type St → M St Ret St"""
		body = ''.join(self.stmt(st, ind + '  ') for st in stmts)
		return f'(fun (s : St) => (do\n{body}{ind}  pure s : Py.M St Ret St))'

	def stmt(self, st, ind) -> str:
		m = getattr(self, 's_' + type(st).__name__, None)
		if m is None:
			raise Untranslatable(f'statement {type(st).__name__} at line {st.lineno}')
		# calls of other translated functions inside the statement's expressions are evaluated first (`let vN ← Py.call …`)
		saved, self.pre = self.pre, []
		try:
			text = m(st, ind)
			pre = ''.join(self.guards(raises, ind) + f'{ind}let {v} ← Py.call {call}\n' for v, call, raises in self.pre)
		finally:
			self.pre = saved
		return pre + text

	def s_Pass(self, st, ind): return ''

	def s_Expr(self, st, ind):
		v = st.value
		if isinstance(v, ast.Constant) and isinstance(v.value, str):
			return ''   # doc-string
		so = (self.d.get('stmt_opaque') or {}).get(ast.unparse(v))
		if so is not None:       # a call that updates one local in place (exact text, declared per function): (variable, new value, type, raises)
			return self.assign(so[0], E(so[1], so[2], list(so[3]) if len(so) > 3 else []), ind)
		if (isinstance(v, ast.Call) and isinstance(v.func, ast.Name) and v.func.id in self.known and self.known[v.func.id].get('fills_out')
				and any(k.arg == 'out' for k in v.keywords)):
			# NumPy basic slicing yields a view: what the callee writes into `out=base[…]` is written into `base`
			oarg = next(k.value for k in v.keywords if k.arg == 'out')
			node = self.viewdef.get(oarg.id) if isinstance(oarg, ast.Name) and oarg.id in self.viewdef else oarg
			base, puts = self.view_put(node)
			call, ty, raises = self.call_known(v)
			if ty != ('nd',): raise Untranslatable('out= of a function that does not return the array')
			self.nv += 1
			vn = f'w{self.nv}'
			return (self.guards(raises, ind) + f'{ind}let {vn} ← Py.call {call}\n'
			        + self.assign(base, E(puts(vn), ('nd',)), ind))
		if self.is_known_call(v) and isinstance(v.func, ast.Name) and self.known[v.func.id].get('returns_param') is not None:
			d = self.known[v.func.id]
			pos = [n for n, _ in d['params']].index(d['returns_param'])
			tgt = v.args[pos] if pos < len(v.args) else None
			if not (isinstance(tgt, ast.Name) and tgt.id in self.vars): raise Untranslatable(f'{v.func.id} mutates an argument that is not a local name')
			call, ty, raises = self.call_known(v)
			e = self.coerce(E('v', ty), self.vars[tgt.id], f'object mutated by {v.func.id}')
			return self.guards(raises, ind) + f'{ind}let v ← Py.call {call}\n{ind}let s : St := {{ s with {tgt.id} := {e.lean} }}\n'
		if self.is_known_call(v):
			call, ty, raises = self.call_known(v)      # a translated function called for its checks only
			return self.guards(raises, ind) + f'{ind}let _ ← Py.call {call}\n'
		if (isinstance(v, ast.Call) and ast.unparse(v.func) == 'np.copyto' and len(v.args) == 2 and [f'{k.arg}={ast.unparse(k.value)}' for k in v.keywords] == ["casting='unsafe'"]
				and isinstance(v.args[0], ast.Subscript) and isinstance(v.args[0].value, ast.Name) and self.vars.get(v.args[0].value.id) == ('carr',)):
			# np.copyto(out[i], x, casting='unsafe'): out[i] is a view into out.values
			name = v.args[0].value.id
			i = self.value(v.args[0].slice)
			x = self.value(v.args[1])
			if i.ty != INT or x.ty != LIST(INT): raise Untranslatable('np.copyto argument types')
			new = E(f'(Py.CArr.putItem s.{name} {i.lean} {x.lean})', ('carr',),
			        i.raises + x.raises + [(f'(Py.CArr.putItemBad s.{name} {i.lean} {x.lean})', 'ValueError')])
			return self.assign(name, new, ind)
		if (isinstance(v, ast.Call) and isinstance(v.func, ast.Attribute) and v.func.attr == 'add' and len(v.args) == 1 and not v.keywords
				and isinstance(v.func.value, ast.Name) and self.vars.get(v.func.value.id) in (('acc',), OPT(('acc',)))):
			name = v.func.value.id
			cur = self.value(v.func.value)
			i = self.value(v.args[0])
			if i.ty != INT: raise Untranslatable('accumulator.add of a non-int')
			new = E(f'(Py.Acc.add {cur.lean} {i.lean})', ('acc',), cur.raises + i.raises + [(f'(Py.Acc.addBad {cur.lean} {i.lean})', 'IndexError')])
			return self.assign(name, new, ind)
		if isinstance(v, ast.Call) and ast.unparse(v.func) == 'np.fill_diagonal' and len(v.args) == 2 and not v.keywords:
			o = v.args[0]
			if not (isinstance(o, ast.Name) and o.id in self.vars and self.vars[o.id] in (('nd',), OPT(('nd',)))) or ast.unparse(v.args[1]) != '0':
				raise Untranslatable('np.fill_diagonal with unexpected arguments')
			cur = self.value(o)
			return self.assign(o.id, E(f'(Py.ND.fillDiagonal {cur.lean} 0)', ('nd',), cur.raises), ind)
		if isinstance(v, ast.Call) and ast.unparse(v.func) == '_cmetric._jaccarddist_parallel' and len(v.args) == 4 and not v.keywords:
			q, vals, bnds = (self.value(a) for a in v.args[:3])
			o = v.args[3]
			if not (isinstance(o, ast.Name) and o.id in self.vars and self.vars[o.id] in (('nd',), OPT(('nd',)))) or (q.ty, vals.ty, bnds.ty) != (('arr',), ('arr',), LIST(INT)):
				raise Untranslatable('_jaccarddist_parallel with unexpected arguments')
			cur = self.value(o)
			new = E(f'(Py.parallelDists {q.lean} {vals.lean} {bnds.lean} {cur.lean})', ('nd',),
			        q.raises + vals.raises + bnds.raises + cur.raises + [(f'(!(({q.lean}).dtype.kernelOk && ({vals.lean}).dtype.kernelOk))', 'TypeError')])
			return self.assign(o.id, new, ind)
		if isinstance(v, ast.Call) and ((isinstance(v.func, ast.Attribute) and not (v.func.attr == 'append')) or (isinstance(v.func, ast.Name) and v.func.id == 'validate_dna_seq_bytes')):
			try:
				e = self.expr(v)
			except Untranslatable:
				e = None
			if e is not None and e.ty in (('obj',), ('db',)):
				return self.guards(e.raises, ind)
		if isinstance(v, ast.Yield):
			if not self.gen: raise Untranslatable('yield in a function not declared a generator')
			e = self.coerce(self.expr(v.value), self.gen, 'yielded value')
			return self.guards(e.raises, ind) + f'{ind}let s : St := {{ s with yielded := s.yielded ++ [{e.lean}] }}\n'
		if (isinstance(v, ast.Call) and isinstance(v.func, ast.Attribute) and v.func.attr == 'insert' and len(v.args) == 2 and not v.keywords
				and isinstance(v.func.value, ast.Name) and self.vars.get(v.func.value.id, ('',))[0] == 'list'):
			name = v.func.value.id
			i = self.value(v.args[0])
			x = self.coerce(self.expr(v.args[1]), self.vars[name][1], 'inserted value')
			if i.ty != INT: raise Untranslatable('insert at a non-int position')
			return self.guards(i.raises + x.raises, ind) + f'{ind}let s : St := {{ s with {name} := Py.listInsert s.{name} {i.lean} {x.lean} }}\n'
		if isinstance(v, ast.Call) and isinstance(v.func, ast.Attribute) and v.func.attr == 'append' and len(v.args) == 1:
			tgt = v.func.value
			# rec.field.append(v) on a local record
			if (isinstance(tgt, ast.Attribute) and isinstance(tgt.value, ast.Name) and tgt.value.id in self.vars
					and self.vars[tgt.value.id][0] == 'rec'):
				r = tgt.value.id
				fields = dict(RECORDS[self.vars[r][1]]['fields'])
				if tgt.attr in fields and fields[tgt.attr][0] == 'list':
					a = self.coerce(self.expr(v.args[0]), fields[tgt.attr][1], 'appended value')
					f = mangle(tgt.attr)
					return self.guards(a.raises, ind) + f'{ind}let s : St := {{ s with {r} := {{ s.{r} with {f} := s.{r}.{f} ++ [{a.lean}] }} }}\n'
			if isinstance(tgt, ast.Name) and tgt.id in self.vars and self.vars[tgt.id][0] == 'list':
				a = self.coerce(self.expr(v.args[0]), self.vars[tgt.id][1], 'appended value')
				return self.guards(a.raises, ind) + f'{ind}let s : St := {{ s with {tgt.id} := s.{tgt.id} ++ [{a.lean}] }}\n'
			# d.setdefault(k, []).append(v)
			if (isinstance(tgt, ast.Call) and isinstance(tgt.func, ast.Attribute) and tgt.func.attr == 'setdefault' and len(tgt.args) == 2
					and isinstance(tgt.args[1], ast.List) and not tgt.args[1].elts and isinstance(tgt.func.value, ast.Name)):
				d = tgt.func.value.id
				if d in self.vars and self.vars[d][0] == 'dict' and self.vars[d][2][0] == 'list':
					k = self.coerce(self.value(tgt.args[0]), self.vars[d][1], 'dict key')
					a = self.coerce(self.expr(v.args[0]), self.vars[d][2][1], 'appended value')
					return self.guards(k.raises + a.raises, ind) + f'{ind}let s : St := {{ s with {d} := Py.dictAppend s.{d} {k.lean} {a.lean} }}\n'
		raise Untranslatable(f'expression statement at line {st.lineno}')

	def s_Assign(self, st, ind):
		if len(st.targets) != 1:
			raise Untranslatable(f'chained assignment at line {st.lineno}')
		tgt, v = st.targets[0], st.value
		known_call = self.is_known_call(v)
		# a, b = f(...)   for a translated function returning a tuple
		if isinstance(tgt, ast.Tuple) and known_call and all(isinstance(t, ast.Name) for t in tgt.elts):
			call, ty, raises = self.call_known(v)
			if ty[0] != 'tuple' or len(ty[1]) != len(tgt.elts): raise Untranslatable(f'unpacking {ty} into {len(tgt.elts)} names')
			out = self.guards(raises, ind) + f'{ind}let v ← Py.call {call}\n'
			n = len(tgt.elts)
			for i, (t, x) in enumerate(zip(tgt.elts, ty[1])):
				proj = 'v' + ''.join(['.2'] * i) + ('.1' if i < n - 1 else '')
				self.declare(t.id, x)
				e = self.coerce(E(proj, x), self.vars[t.id], f'assignment to {t.id}')
				self.narrow = {k for k in self.narrow if f"id='{t.id}'" not in k}
				out += f'{ind}let s : St := {{ s with {t.id} := {e.lean} }}\n'
			return out
		if isinstance(tgt, ast.Tuple) and not known_call and all(isinstance(t, ast.Name) for t in tgt.elts):
			e = self.expr(v)
			if e.ty[0] != 'tuple' or len(e.ty[1]) != len(tgt.elts): raise Untranslatable(f'unpacking {e.ty} into {len(tgt.elts)} names')
			self.nv += 1
			tv = f't{self.nv}'
			out = self.guards(e.raises, ind) + f'{ind}let {tv} := {e.lean}\n'
			n = len(tgt.elts)
			for i, (t, x) in enumerate(zip(tgt.elts, e.ty[1])):
				proj = tv + ''.join(['.2'] * i) + ('.1' if i < n - 1 else '')
				out += self.assign(t.id, E(proj, x), ind)
			return out
		# obj.field = e   on a local record
		if isinstance(tgt, ast.Attribute) and isinstance(tgt.value, ast.Name) and tgt.value.id in self.vars and self.vars[tgt.value.id][0] == 'rec':
			r = tgt.value.id
			fields = dict(RECORDS[self.vars[r][1]]['fields'])
			if tgt.attr not in fields: raise Untranslatable(f'assignment to .{tgt.attr} of {self.vars[r][1]}')
			e = self.coerce(self.expr(v), fields[tgt.attr], f'assignment to {r}.{tgt.attr}')
			self.narrow = {k for k in self.narrow if f"id='{r}'" not in k}
			return self.guards(e.raises, ind) + f'{ind}let s : St := {{ s with {r} := {{ s.{r} with {mangle(tgt.attr)} := {e.lean} }} }}\n'
		if isinstance(tgt, ast.Subscript) and isinstance(tgt.value, ast.Name) and tgt.value.id in self.vars and not isinstance(tgt.slice, ast.Slice):
			name = tgt.value.id
			ty = self.vars[name]
			if ty[0] == 'dict':
				if ty[1] == NONE:     # d = dict() of still unknown type: taken from the first item assignment
					kx, vx = self.value(tgt.slice), self.expr(v)
					ty = DICT(kx.ty, vx.ty); self.vars[name] = ty
				k = self.coerce(self.value(tgt.slice), ty[1], 'dict key')
				e = self.coerce(self.expr(v), ty[2], 'dict value')
				return self.guards(k.raises + e.raises, ind) + f'{ind}let s : St := {{ s with {name} := Py.dictSet s.{name} {k.lean} {e.lean} }}\n'
			if ty in (('nd',), OPT(('nd',))) and isinstance(tgt.slice, ast.Tuple) and len(tgt.slice.elts) == 2:
				cur = self.value(tgt.value)
				sl, col = self.value(tgt.slice.elts[0]), self.value(tgt.slice.elts[1])
				src = self.value(v)
				if sl.ty != TUP(INT, INT) or col.ty != INT or src.ty != ('nd',): raise Untranslatable(f'array assignment {ast.unparse(tgt)} = …')
				new = E(f'(Py.ND.putCol {cur.lean} ({sl.lean}).1 ({sl.lean}).2 {col.lean} {src.lean})', ('nd',), cur.raises + sl.raises + col.raises + src.raises)
				return self.assign(name, new, ind)
			if ty in (('nd',), OPT(('nd',))):
				cur = self.value(tgt.value)
				i = self.value(tgt.slice)
				e = self.expr(v)
				if i.ty != INT or e.ty != ('score',): raise Untranslatable(f'array item assignment [{i.ty}] = {e.ty}')
				new = E(f'(Py.ND.set1 {cur.lean} {i.lean} {e.lean})', ('nd',),
				        cur.raises + i.raises + e.raises + [(f'(Py.getItem? ({cur.lean}).vals1 {i.lean}).isNone', 'IndexError')])
				return self.assign(name, new, ind)
			if ty[0] == 'list':
				i = self.value(tgt.slice)
				if i.ty != INT: raise Untranslatable('list index that is not an int')
				e = self.coerce(self.expr(v), ty[1], 'list element')
				return (self.guards(i.raises + e.raises + [(f'(Py.getItem? s.{name} {i.lean}).isNone', 'IndexError')], ind)
				        + f'{ind}let s : St := {{ s with {name} := Py.listSet s.{name} {i.lean} {e.lean} }}\n')
		def selfattr(t):
			return isinstance(t, ast.Attribute) and isinstance(t.value, ast.Name) and t.value.id == 'self' and self.d.get('init')
		if selfattr(tgt):
			tgt = ast.copy_location(ast.Name(id='self_' + tgt.attr, ctx=ast.Store()), tgt)
		if isinstance(tgt, ast.Tuple) and all(selfattr(t) or isinstance(t, ast.Name) for t in tgt.elts) and known_call:
			tgt2 = ast.Tuple(elts=[ast.Name(id='self_' + t.attr, ctx=ast.Store()) if selfattr(t) else t for t in tgt.elts], ctx=ast.Store())
			return self.s_Assign(ast.copy_location(ast.Assign(targets=[ast.copy_location(tgt2, tgt)], value=v, lineno=st.lineno), st), ind)
		if not isinstance(tgt, ast.Name):
			raise Untranslatable(f'assignment target at line {st.lineno}')
		name = tgt.id
		if isinstance(v, ast.Call) and v.args and isinstance(v.args[0], ast.ListComp):
			tmp = f'tmp__L{st.lineno - self.node.lineno}'      # named by its line within the function (the same in both passes)
			hint = (self.d.get('comp_types') or {}).get(name)
			if hint is None: raise Untranslatable(f'type of the list comprehension passed to {ast.unparse(v.func)} is not declared')
			if tmp not in self.vars:
				self.vars[tmp] = hint; self.order.append(tmp)
			a1 = ast.copy_location(ast.Assign(targets=[ast.Name(id=tmp, ctx=ast.Store())], value=v.args[0], lineno=st.lineno), st)
			v2 = ast.copy_location(ast.Call(func=v.func, args=[ast.Name(id=tmp, ctx=ast.Load())] + v.args[1:], keywords=v.keywords), v)
			a2 = ast.copy_location(ast.Assign(targets=[tgt], value=v2, lineno=st.lineno), st)
			for x in (a1, a2): ast.fix_missing_locations(x)
			return self.stmt(a1, ind) + self.stmt(a2, ind)
		# x = [elt for i in xs if c]  with an element expression that is not just `i`:  x = []; for i in xs: if c: x.append(elt)
		if (isinstance(v, ast.ListComp) and len(v.generators) == 1 and isinstance(v.generators[0].target, ast.Name)
				and not (isinstance(v.elt, ast.Name) and v.elt.id == v.generators[0].target.id)):
			g = v.generators[0]
			if name not in self.vars: raise Untranslatable(f'type of the list {name} built by a comprehension is not declared')
			body = [ast.Expr(value=ast.Call(func=ast.Attribute(value=ast.Name(id=name, ctx=ast.Load()), attr='append', ctx=ast.Load()), args=[v.elt], keywords=[]))]
			for c in reversed(g.ifs):
				body = [ast.If(test=c, body=body, orelse=[])]
			loop = ast.For(target=g.target, iter=g.iter, body=body, orelse=[])
			ast.fix_missing_locations(ast.copy_location(loop, st))
			for x in ast.walk(loop):
				if not hasattr(x, 'lineno'): x.lineno = st.lineno
			return f'{ind}let s : St := {{ s with {name} := [] }}\n' + self.stmt(loop, ind)
		# call of another translated function:  x = f(a, b)
		if known_call:
			call, ty, raises = self.call_known(v)
			self.declare(name, ty)
			e = self.coerce(E('v', ty), self.vars[name], f'assignment to {name}')
			self.narrow = {k for k in self.narrow if f"id='{name}'" not in k}
			return self.guards(raises, ind) + f'{ind}let v ← Py.call {call}\n{ind}let s : St := {{ s with {name} := {e.lean} }}\n'
		self.list_hint = self.vars.get(name) if self.vars.get(name, ('',))[0] == 'list' else None
		if isinstance(v, (ast.Subscript, ast.IfExp)):
			self.viewdef.pop(name, None)
		try:
			e = self.expr(v)
			if e.ty == ('nd',) and isinstance(v, (ast.Subscript, ast.IfExp)):
				self.viewdef[name] = v
		finally:
			self.list_hint = None
		return self.assign(name, e, ind)

	def is_known_call(self, v) -> bool:
		if isinstance(v, ast.Call) and isinstance(v.func, ast.Attribute) and isinstance(v.func.value, ast.Name) and v.func.value.id == 'common' \
				and v.func.attr in self.known and v.func.value.id not in self.vars:
			return True
		return isinstance(v, ast.Call) and ((isinstance(v.func, ast.Name) and v.func.id in self.known) or self.self_call(v) is not None
		                                    or self.obj_call(v) is not None)

	def obj_call(self, v):
		"""x.method() of a local object whose class's method is a translated function: (function, argument templates with {self})"""
		f = v.func
		if not (isinstance(f, ast.Attribute) and isinstance(f.value, ast.Name) and f.value.id in self.vars): return None
		return (self.d.get('obj_calls') or {}).get(f.attr)

	def self_call(self, v):
		"""self.method(args) / super().method(args) of a class whose methods are translated: (translated function name, leading self arguments)"""
		f = v.func
		if not isinstance(f, ast.Attribute): return None
		recv = f.value
		is_self = isinstance(recv, ast.Name) and recv.id == 'self'
		is_super = isinstance(recv, ast.Call) and isinstance(recv.func, ast.Name) and recv.func.id == 'super' and not recv.args
		key = ('super.' if is_super else '') + f.attr
		sc = (self.d.get('self_calls') or {}).get(key)
		if sc is None or not (is_self or is_super): return None
		return sc

	def call_known(self, v):
		if isinstance(v.func, ast.Attribute) and isinstance(v.func.value, ast.Name) and v.func.value.id == 'common' and v.func.attr in self.known:
			v = ast.copy_location(ast.Call(func=ast.Name(id=v.func.attr, ctx=ast.Load()), args=v.args, keywords=v.keywords), v)
		oc = self.obj_call(v) if isinstance(v.func, ast.Attribute) else None
		if oc is not None and self.self_call(v) is None:
			d = self.known[oc[0]]
			self.calls.add(d['module']); self.callees.add(d['name'])
			if v.args or v.keywords: raise Untranslatable(f'method call {ast.unparse(v.func)} with arguments')
			o = self.value(v.func.value)
			call = f'({d["name"]} ' + ' '.join([en[0] for en in d['env']] + [t.format(self=o.lean) for t in oc[1]]) + ')'
			return call, d['ret'], list(o.raises)
		sc = self.self_call(v)
		if sc is not None:
			d = self.known[sc[0]]
			self.calls.add(d['module']); self.callees.add(d['name'])
			if v.keywords: raise Untranslatable(f'method call {ast.unparse(v.func)} with keywords')
			lead = [self.d['self_exprs'][tok] for tok in sc[1]]
			rest = d['params'][len(lead):]
			if len(v.args) != len(rest): raise Untranslatable(f'method call {ast.unparse(v.func)} with unexpected arguments')
			args = [self.coerce(self.expr(a), t, f'argument of {ast.unparse(v.func)}') for a, (_, t) in zip(v.args, rest)]
			call = f'({d["name"]} ' + ' '.join([en[0] for en in d['env']] + lead + [a.lean for a in args]) + ')'
			return call, d['ret'], guard_all(args)
		d = self.known[v.func.id]
		self.calls.add(d['module'])
		self.callees.add(d['name'])
		names = [n for n, _ in d['params']]
		given = dict(zip(names, v.args))
		for k in v.keywords:
			if k.arg not in names or k.arg in given: raise Untranslatable(f'call of {v.func.id} with unexpected argument {k.arg}')
			given[k.arg] = k.value
		for n, dv in (d.get('defaults') or {}).items():
			given.setdefault(n, ast.Constant(value=dv))
		if len(v.args) > len(names) or set(given) != set(names): raise Untranslatable(f'call of {v.func.id} with unexpected arguments')
		args = [self.coerce(self.expr(given[n]), t, f'argument of {v.func.id}') for n, t in d['params']]
		for en in d['env']:
			if en not in self.d['env']: raise Untranslatable(f'{v.func.id} needs environment {en[0]}')
		call = f'({d["name"]} ' + ' '.join([en[0] for en in d['env']] + [a.lean for a in args]) + ')'
		return call, d['ret'], guard_all(args)

	def s_AugAssign(self, st, ind):
		if not isinstance(st.target, ast.Name): raise Untranslatable('augmented assignment target')
		if self.vars.get(st.target.id) == MSG and isinstance(st.op, ast.Add):
			return ''    # text appended to a message for people: the message stays identified by its first literal piece
		return self.assign(st.target.id, self.e_BinOp(ast.BinOp(left=ast.Name(id=st.target.id, ctx=ast.Load()), op=st.op, right=st.value)), ind)

	def s_AnnAssign(self, st, ind):
		if st.value is None: return ''
		return self.s_Assign(ast.Assign(targets=[st.target], value=st.value, lineno=st.lineno), ind)

	def s_Return(self, st, ind):
		if isinstance(st.value, ast.IfExp) and (self.is_known_call(st.value.body) or self.is_known_call(st.value.orelse)):
			node = ast.If(test=st.value.test, body=[ast.Return(value=st.value.body)], orelse=[ast.Return(value=st.value.orelse)])
			ast.fix_missing_locations(ast.copy_location(node, st))
			for x in ast.walk(node):
				if not hasattr(x, 'lineno'): x.lineno = st.lineno
			return self.stmt(node, ind)
		if isinstance(st.value, ast.Call) and st.value.args and isinstance(st.value.args[0], ast.ListComp) and 'ret__' in (self.d.get('comp_types') or {}):
			if 'ret__' not in self.vars:
				self.vars['ret__'] = self.d['ret']; self.order.append('ret__')
			a = ast.copy_location(ast.Assign(targets=[ast.Name(id='ret__', ctx=ast.Store())], value=st.value, lineno=st.lineno), st)
			r = ast.copy_location(ast.Return(value=ast.Name(id='ret__', ctx=ast.Load())), st)
			ast.fix_missing_locations(a); ast.fix_missing_locations(r)
			return self.stmt(a, ind) + self.stmt(r, ind)
		if isinstance(st.value, ast.ListComp) and self.d['ret'][0] == 'list':
			if 'ret__' not in self.vars:
				self.vars['ret__'] = self.d['ret']; self.order.append('ret__')
			a = ast.copy_location(ast.Assign(targets=[ast.Name(id='ret__', ctx=ast.Store())], value=st.value, lineno=st.lineno), st)
			r = ast.copy_location(ast.Return(value=ast.Name(id='ret__', ctx=ast.Load())), st)
			ast.fix_missing_locations(a); ast.fix_missing_locations(r)
			return self.stmt(a, ind) + self.stmt(r, ind)
		if self.gen:
			if st.value is not None: raise Untranslatable('return with a value in a generator')
			return f'{ind}let _ ← (throw (Py.Ctl.ret s.yielded) : Py.M St Ret Unit)\n'
		if st.value is not None and self.is_known_call(st.value):
			call, ty, raises = self.call_known(st.value)
			e = self.coerce(E('v', ty), self.d['ret'], 'returned value')
			return self.guards(raises, ind) + f'{ind}let v ← Py.call {call}\n{ind}let _ ← (throw (Py.Ctl.ret {e.lean}) : Py.M St Ret Unit)\n'
		e = self.expr(st.value) if st.value is not None else E('none', NONE)
		e = self.coerce(e, self.d['ret'], 'returned value')
		return self.guards(e.raises, ind) + f'{ind}let _ ← (throw (Py.Ctl.ret {e.lean}) : Py.M St Ret Unit)\n'

	def s_Raise(self, st, ind):
		return f'{ind}let _ ← (throw (Py.Ctl.exc .{exc_name(st.exc)}) : Py.M St Ret Unit)\n'

	def s_Assert(self, st, ind):
		c = self.truth(st.test)
		return self.guards(c.raises + [(f'(!{c.lean})', 'AssertionError')], ind)

	def s_Break(self, st, ind): return f'{ind}let _ ← (throw (Py.Ctl.brk s) : Py.M St Ret Unit)\n'
	def s_Continue(self, st, ind): return f'{ind}let _ ← (throw (Py.Ctl.cont s) : Py.M St Ret Unit)\n'

	def s_If(self, st, ind):
		c = self.truth(st.test)
		if c.lean in ('false', 'true') and not c.raises:
			# decided by the declared types (isinstance of a parameter whose translation type is fixed): only the live branch exists
			live = st.body if c.lean == 'true' else st.orelse
			return ''.join(self.stmt(x, ind) for x in live)
		saved = set(self.narrow)
		self.narrow = saved | self.narrowing(st.test, True)
		a = self.block(st.body, ind + '  ')
		na = self.narrow if not self.diverges(st.body) else None
		self.narrow = saved | self.narrowing(st.test, False)
		b = self.block(st.orelse, ind + '  ') if st.orelse else None
		nb = self.narrow if not self.diverges(st.orelse) else None
		# after the statement: what both continuing branches know
		if na is None and nb is None: self.narrow = saved
		elif na is None: self.narrow = nb
		elif nb is None: self.narrow = na
		else: self.narrow = na & nb
		els = f'{b} s' if b else 'pure s'
		return self.guards(c.raises, ind) + f'{ind}let s ← (if {c.lean} then\n{ind}    {a} s\n{ind}  else {els})\n'

	def diverges(self, stmts) -> bool:
		if not stmts: return False
		last = stmts[-1]
		if isinstance(last, (ast.Return, ast.Raise, ast.Break, ast.Continue)): return True
		if isinstance(last, ast.If): return self.diverges(last.body) and bool(last.orelse) and self.diverges(last.orelse)
		return False

	def bind_target(self, tgt, ty, src: str) -> str:
		"""assignments of the loop target(s) from the Lean expression src of type ty"""
		if isinstance(tgt, ast.Name):
			self.declare(tgt.id, ty)
			self.narrow = {k for k in self.narrow if f"id='{tgt.id}'" not in k}
			return f'{tgt.id} := {src}'
		if isinstance(tgt, ast.Tuple) and ty[0] == 'tuple' and len(tgt.elts) == len(ty[1]):
			n = len(tgt.elts)
			out = []
			for i, (t, x) in enumerate(zip(tgt.elts, ty[1])):
				proj = src + ''.join(['.2'] * i) + ('.1' if i < n - 1 else '')
				out.append(self.bind_target(t, x, proj))
			return ', '.join(out)
		raise Untranslatable('loop target')

	def s_For(self, st, ind):
		it = st.iter
		if isinstance(it, ast.Call) and isinstance(it.func, ast.Name) and it.func.id == 'enumerate' and len(it.args) == 1:
			xs = self.value(it.args[0])
			if xs.ty == ('sigs',): xs = E(f'(Py.Sigs.arrs {xs.lean})', LIST(('arr',)), xs.raises)
			if xs.ty[0] != 'list': raise Untranslatable('enumerate of ' + str(xs.ty))
			xs = E(f'(Py.enumerate {xs.lean})', LIST(TUP(INT, xs.ty[1])), xs.raises)
		elif isinstance(it, ast.Call) and isinstance(it.func, ast.Name) and it.func.id == 'range' and 1 <= len(it.args) <= 2 and not it.keywords:
			a = [self.value(x) for x in it.args]
			if any(x.ty != INT for x in a): raise Untranslatable('range of non-ints')
			lo, hi = ('(0 : Int)', a[0].lean) if len(a) == 1 else (a[0].lean, a[1].lean)
			xs = E(f'((List.range (({hi}) - ({lo})).toNat).map (fun (j : Nat) => ({lo}) + (j : Int)))', LIST(INT), guard_all(a))
		else:
			xs = self.value(it)
		if xs.ty == ('idx',):      # iterating an integer index array yields its entries
			xs = self.coerce(xs, LIST(INT), 'iterated index')
		if xs.ty == BYTES: elt = BYTE
		elif xs.ty[0] in ('list', 'set'): elt = xs.ty[1]
		else: raise Untranslatable(f'for loop over {xs.ty}')
		binds = self.bind_target(st.target, elt, 'x')
		saved = set(self.narrow)
		body = ''.join(self.stmt(x, ind + '    ') for x in st.body)
		self.narrow = saved & self.narrow
		out = self.guards(xs.raises, ind)
		out += (f'{ind}let r ← Py.forEach {xs.lean} (fun x (s : St) => (do\n{ind}    let s : St := {{ s with {binds} }}\n{body}'
		        f'{ind}    pure s : Py.M St Ret St)) s\n{ind}let s : St := r.1\n')
		if st.orelse:
			e = self.block(st.orelse, ind + '  ')
			out += f'{ind}let s ← (if r.2 then\n{ind}    {e} s\n{ind}  else pure s)\n'
		return out

	def s_While(self, st, ind):
		if st.orelse: raise Untranslatable('while … else')
		fuel = self.d.get('fuel')
		if not fuel: raise Untranslatable('while loop in a function without a declared fuel expression')
		self.nohoist += 1
		try:
			c = self.truth(st.test)
		finally:
			self.nohoist -= 1
		saved = set(self.narrow)
		self.narrow = saved | self.narrowing(st.test, True)
		body = ''.join(self.stmt(x, ind + '    ') for x in st.body)
		self.narrow = saved & self.narrow
		if not self.has_break(st.body):
			self.narrow = self.narrow | self.narrowing(st.test, False)
		cond = self.guards(c.raises, ind + '    ') + f'{ind}    pure {c.lean}'
		return (f'{ind}let s ← Py.whileLoop ({fuel}) (fun (s : St) => (do\n{cond} : Py.M St Ret Bool)) (fun (s : St) => (do\n{body}'
		        f'{ind}    pure s : Py.M St Ret St)) s\n')

	def has_break(self, stmts) -> bool:
		for x in stmts:
			if isinstance(x, ast.Break): return True
			if isinstance(x, ast.If) and (self.has_break(x.body) or self.has_break(x.orelse)): return True
			if isinstance(x, ast.Try) and (self.has_break(x.body) or any(self.has_break(h.body) for h in x.handlers)): return True
		return False

	def s_Delete(self, st, ind):
		if len(st.targets) != 1 or not (isinstance(st.targets[0], ast.Subscript) and isinstance(st.targets[0].value, ast.Name)
		                                and self.vars.get(st.targets[0].value.id, ('',))[0] == 'list' and not isinstance(st.targets[0].slice, ast.Slice)):
			raise Untranslatable(f'del statement at line {st.lineno}')
		name = st.targets[0].value.id
		i = self.value(st.targets[0].slice)
		if i.ty != INT: raise Untranslatable('del with a non-int index')
		return (self.guards(i.raises + [(f'(Py.getItem? s.{name} {i.lean}).isNone', 'IndexError')], ind)
		        + f'{ind}let s : St := {{ s with {name} := Py.listDel s.{name} {i.lean} }}\n')

	def s_With(self, st, ind):
		out = ''
		for it in st.items:
			e = self.expr(it.context_expr)
			if it.optional_vars is not None:
				if not isinstance(it.optional_vars, ast.Name): raise Untranslatable('with … as <pattern>')
				out += self.assign(it.optional_vars.id, e, ind)
			else:
				out += self.guards(e.raises, ind)
		return out + ''.join(self.stmt(x, ind) for x in st.body)

	def s_Try(self, st, ind):
		if st.finalbody or st.orelse or len(st.handlers) != 1 or len(st.body) != 1:
			raise Untranslatable(f'try statement at line {st.lineno} (only `try: <one statement> except E: …`)')
		if not isinstance(st.body[0], (ast.Assign, ast.Expr, ast.AugAssign)):
			raise Untranslatable('try body that is not a simple statement')
		h = st.handlers[0]
		if h.name:
			uses = [x for b in h.body for x in ast.walk(b) if isinstance(x, ast.Name) and x.id == h.name]
			causes = [b.cause for b in h.body if isinstance(b, ast.Raise) and isinstance(b.cause, ast.Name) and b.cause.id == h.name]
			if len(uses) != len(causes): raise Untranslatable('except … as name, with the name used for more than `raise … from name`')
		saved = set(self.narrow)
		body = self.block(st.body, ind + '  ')
		nb = self.narrow
		self.narrow = set(saved)
		handler = self.block(h.body, ind + '  ')
		self.narrow = nb if self.diverges(h.body) else (nb & self.narrow)
		return f'{ind}let s ← Py.tryExcept ({body} s) .{exc_name(h.type)} ({handler} s)\n'

	# ---- definite assignment ---------------------------------------------------------------------
	def check_bound(self):
		params = {n for n, _ in self.d['params']} | ({'yielded'} if self.gen else set())
		problems = []

		def reads(node, bound, extra=frozenset()):
			# names bound by comprehensions inside the node are assigned before they are read
			extra = set(extra) | {t.id for c in ast.walk(node) if isinstance(c, ast.comprehension) for t in ast.walk(c.target) if isinstance(t, ast.Name)}
			for x in ast.walk(node):
				if (isinstance(x, ast.Name) and isinstance(x.ctx, ast.Load) and x.id in self.vars and x.id not in bound and x.id not in extra
						and x.id not in (self.d.get('assume_bound') or ())):
					problems.append(f'{x.id} (line {x.lineno}) may be read before it is assigned')

		def targets(t):
			if isinstance(t, ast.Name): return {t.id}
			if isinstance(t, (ast.Tuple, ast.List)): return set().union(*[targets(x) for x in t.elts])
			return set()

		TOP = None   # "unreachable": every variable counts as assigned

		def meet(a, b):
			if a is TOP: return b
			if b is TOP: return a
			return a & b

		def run(stmts, bound):
			for st in stmts:
				if bound is TOP: return TOP
				if isinstance(st, (ast.Assign, ast.AnnAssign)):
					if st.value is not None: reads(st.value, bound)
					for t in (st.targets if isinstance(st, ast.Assign) else [st.target]): bound = bound | targets(t)
				elif isinstance(st, ast.AugAssign):
					reads(st.value, bound); reads(st.target, bound)
				elif isinstance(st, ast.If):
					reads(st.test, bound)
					bound = meet(run(st.body, bound), run(st.orelse, bound))
				elif isinstance(st, ast.For):
					reads(st.iter, bound)
					inner = run(st.body, bound | targets(st.target))
					after = bound   # zero iterations / break
					if st.orelse: after = meet(run(st.orelse, bound), bound if self.has_break(st.body) else TOP)
					bound = after
				elif isinstance(st, ast.While):
					reads(st.test, bound)
					run(st.body, bound)
					if isinstance(st.test, ast.Constant) and st.test.value is True and not self.has_break(st.body): bound = TOP
				elif isinstance(st, ast.Try):
					b1 = run(st.body, bound)
					hs = [run(h.body, bound) for h in st.handlers]
					for h in hs: b1 = meet(b1, h)
					bound = b1
				elif isinstance(st, ast.With):
					for it in st.items:
						reads(it.context_expr, bound)
						if it.optional_vars is not None: bound = bound | targets(it.optional_vars)
					bound = run(st.body, bound)
				elif isinstance(st, (ast.Return, ast.Raise, ast.Break, ast.Continue)):
					if isinstance(st, ast.Return) and st.value is not None: reads(st.value, bound)
					return TOP
				else:
					reads(st, bound)
			return bound
		run(self.node.body, set(params))
		if problems:
			raise Untranslatable('; '.join(sorted(set(problems))[:3]))

	# ---- whole function ----------------------------------------------------------------------------
	def translate(self) -> str:
		d = self.d
		# element types of empty containers: from the declared return type
		self.empty_types = {}
		ret = d['ret']
		for st in ast.walk(self.node):
			if isinstance(st, ast.Assign) and len(st.targets) == 1 and isinstance(st.targets[0], ast.Name):
				v = st.value
				if isinstance(v, ast.Call) and isinstance(v.func, ast.Name) and v.func.id in ('dict', 'set', 'list') and not v.args:
					if ret[0] == {'dict': 'dict', 'set': 'set', 'list': 'list'}[v.func.id]:
						self.empty_types[st.targets[0].id] = ret
				if isinstance(v, ast.List) and not v.elts and ret[0] == 'list':
					self.empty_types[st.targets[0].id] = ret
		''.join(self.stmt(st, '    ') for st in self.node.body)     # pass 1: settles the types of the locals
		self.narrow = set()
		body = ''.join(self.stmt(st, '    ') for st in self.node.body)
		self.check_bound()
		name = d['name']
		envb = ''.join(f' ({n} : {t})' for n, t in d['env'])
		fields = ''.join(f'  {n} : {lean_ty(self.vars[n])}\n' for n in self.order)
		params = ''.join(f' ({n} : {lean_ty(t)})' for n, t in d['params'])
		init = ', '.join(f'{n} := {n}' if n in dict(d['params']) else f'{n} := {default(self.vars[n])}' for n in self.order)
		if self.gen:
			fall = 'fun s => .ok s.yielded'
		elif d.get('returns_param') is not None or d.get('returns_local') is not None:
			fall = f'fun s => .ok s.{d.get("returns_param") or d["returns_local"]}'
		elif d.get('init'):
			fall = 'fun s => .ok (' + ', '.join(f's.self_{a}' for a in d['init']) + ')'
		elif ret[0] == 'opt':
			fall = 'fun _ => .ok none'
		else:
			fall = 'fun _ => .raised .Other'     # falls off the end although a value is required
		return (f'/-- state of `{d["qual"]}` ({d["file"]}): parameters and locals -/\nstructure {name}.St where\n{fields}\n'
		        f'abbrev {name}.Ret := {lean_ty(ret)}\n\nnamespace {name}\n'
		        f'def run{envb} : St → Py.M St Ret St :=\n  fun s => do\n{body}    pure s\nend {name}\n\n'
		        f'def {name}{envb}{params} : Py.Res {name}.Ret :=\n  Py.finish ({fall}) ({name}.run{"".join(" " + n for n, _ in d["env"])} {{ {init} }})\n'
		        f'def {name}.untranslatable : Bool := ' + ' || '.join(['false'] + [f'{c}.untranslatable' for c in sorted(self.callees)]) + '\n')

	def stub(self, why: str) -> str:
		d = self.d
		envb = ''.join(f' (_{n} : {t})' for n, t in d['env'])
		params = ''.join(f' (_{n} : {lean_ty(t)})' for n, t in d['params'])
		return (f'/-- `{d["qual"]}` ({d["file"]}) could not be translated: {why.replace("-/", "- /")} -/\n'
		        f'abbrev {d["name"]}.Ret := {lean_ty(d["ret"])}\n'
		        f'def {d["name"]}{envb}{params} : Py.Res {d["name"]}.Ret := .raised .Other\n'
		        f'def {d["name"]}.untranslatable : Bool := true\n')


def lean_str(v: str) -> str:
	return '"' + ''.join(c if (32 <= ord(c) < 127 and c not in '"\\') else f'\\u{{{ord(c):x}}}' for c in v) + '"'


def lean_char(c: str) -> str:
	return "'" + (c if (32 <= ord(c) < 127 and c not in "'\\") else (f'\\u{ord(c):04x}' if ord(c) < 0x10000 else None)) + "'"


def module_consts(tree: ast.Module) -> dict:
	"""module-level NAME = <literal> (str / int / bytes / tuples of those)"""
	out = {}
	def lit(v):
		return isinstance(v, ast.Constant) and isinstance(v.value, (str, int, bytes)) or isinstance(v, ast.Tuple) and all(lit(x) for x in v.elts)
	for st in tree.body:
		if isinstance(st, ast.Assign) and len(st.targets) == 1 and isinstance(st.targets[0], ast.Name) and lit(st.value):
			out[st.targets[0].id] = st.value
		elif isinstance(st, ast.Assign) and len(st.targets) == 1 and isinstance(st.targets[0], ast.Name) and isinstance(st.value, ast.ListComp):
			# [np.dtype(f'u{s}') for s in [2, 4, 8]]  ->  [np.dtype('u2'), np.dtype('u4'), np.dtype('u8')]
			c = st.value
			g = c.generators[0] if len(c.generators) == 1 else None
			e = c.elt
			if (g is not None and not g.ifs and isinstance(g.target, ast.Name) and isinstance(g.iter, (ast.List, ast.Tuple))
					and all(isinstance(x, ast.Constant) and isinstance(x.value, int) for x in g.iter.elts)
					and isinstance(e, ast.Call) and ast.unparse(e.func) == 'np.dtype' and len(e.args) == 1 and isinstance(e.args[0], ast.JoinedStr)
					and len(e.args[0].values) == 2 and isinstance(e.args[0].values[0], ast.Constant)
					and isinstance(e.args[0].values[1], ast.FormattedValue) and isinstance(e.args[0].values[1].value, ast.Name)
					and e.args[0].values[1].value.id == g.target.id):
				pre = e.args[0].values[0].value
				out[st.targets[0].id] = ast.fix_missing_locations(ast.copy_location(ast.List(elts=[
					ast.Call(func=e.func, args=[ast.Constant(value=f'{pre}{x.value}')], keywords=[]) for x in g.iter.elts], ctx=ast.Load()), st))
	return out


def rename_locals(node: ast.FunctionDef) -> ast.FunctionDef:
	"""local variables whose names are Lean keywords (or binders of the generated code) get a trailing underscore"""
	local = {a.arg for a in node.args.args} | {x.id for x in ast.walk(node) if isinstance(x, ast.Name) and isinstance(x.ctx, ast.Store)}
	clash = {n for n in local if n in LEAN_KEYWORDS}
	if not clash:
		return node

	class R(ast.NodeTransformer):
		def visit_Name(self, n):
			return ast.copy_location(ast.Name(id=mangle(n.id), ctx=n.ctx), n) if n.id in clash else n

		def visit_arg(self, n):
			return ast.copy_location(ast.arg(arg=mangle(n.arg), annotation=None), n) if n.arg in clash else n
	import copy
	return ast.fix_missing_locations(R().visit(copy.deepcopy(node)))


def split_loop_targets(node: ast.FunctionDef) -> ast.FunctionDef:
	"""a name that is the target of several `for` loops and occurs nowhere outside them is one variable per loop (`i` for the fields of a
	slice, `i` again for the entries of an array): the k-th loop's occurrences become `<name>_<k>`, so that each has one type"""
	import copy
	node = copy.deepcopy(node)
	loops = {}

	class V(ast.NodeVisitor):
		def visit_For(self, n):
			if isinstance(n.target, ast.Name):
				loops.setdefault(n.target.id, []).append(n)
			self.generic_visit(n)
	V().visit(node)
	for name, ls in loops.items():
		if len(ls) < 2:
			continue
		inside = {id(x) for l in ls for x in ast.walk(l) if isinstance(x, ast.Name) and x.id == name}
		everywhere = [x for x in ast.walk(node) if isinstance(x, ast.Name) and x.id == name]
		nested = any(l2 is not l and any(x is l2 for x in ast.walk(l)) for l in ls for l2 in ls)
		if nested or any(id(x) not in inside for x in everywhere) or any(a.arg == name for a in node.args.args):
			continue
		for k, l in enumerate(ls, 1):
			for x in ast.walk(l):
				if isinstance(x, ast.Name) and x.id == name:
					x.id = f'{name}_{k}'
	return node


def rebind_param(node: ast.FunctionDef, spec) -> ast.FunctionDef:
	"""spec = (name, test text): the function starts (after the doc-string) with `if <test>: name = <expr>` where the test is decided
	true by the declared type of `name` (e.g. `isinstance(attrs, str)` for a parameter declared as text).  The re-bound value gets a
	name of its own, `<name>_2`, in that statement and everywhere after it, so that each variable has one type."""
	import copy
	node = copy.deepcopy(node)
	name, test = spec
	body = node.body
	k = 1 if body and isinstance(body[0], ast.Expr) and isinstance(body[0].value, ast.Constant) and isinstance(body[0].value.value, str) else 0
	st = body[k] if len(body) > k else None
	ok = (isinstance(st, ast.If) and ast.unparse(st.test) == test and not st.orelse and len(st.body) == 1 and isinstance(st.body[0], ast.Assign)
	      and len(st.body[0].targets) == 1 and isinstance(st.body[0].targets[0], ast.Name) and st.body[0].targets[0].id == name)
	if not ok:
		raise Untranslatable(f'{node.name}: expected `if {test}: {name} = …` as the first statement')
	if any(isinstance(x, ast.Name) and x.id == name and isinstance(x.ctx, ast.Store) for s_ in body[k + 1:] for x in ast.walk(s_)):
		raise Untranslatable(f'{node.name}: {name} is assigned again later')
	st.body[0].targets[0].id = name + '_2'
	body[k] = st.body[0]      # the test is true for every value of the declared type: only the assignment remains
	for s_ in body[k + 1:]:
		for x in ast.walk(s_):
			if isinstance(x, ast.Name) and x.id == name:
				x.id = name + '_2'
	return node


def fragment_of(node: ast.FunctionDef, d) -> ast.FunctionDef:
	"""the statements of `node` from the one whose text is d['fragment'][0] up to (excluding) the one whose text starts with d['fragment'][1],
	as a function of the declared parameters that returns d['fragment'][2]; both delimiters must be found exactly once"""
	first, stop, result = d['fragment']
	texts = [ast.unparse(st) for st in node.body]
	starts = [i for i, t in enumerate(texts) if t == first]
	stops = [i for i, t in enumerate(texts) if t.startswith(stop)]
	if len(starts) != 1: raise Untranslatable(f'{d["qual"]}: the statement `{first}` was found {len(starts)} times')
	stops = [i for i in stops if i > starts[0]]
	if not stops: raise Untranslatable(f'{d["qual"]}: no statement starting with `{stop}` after `{first}`')
	body = list(node.body[starts[0]:stops[0]]) + [ast.Return(value=ast.Name(id=result, ctx=ast.Load()))]
	unmangle = lambda n: n[:-1] if n.endswith('_') and n[:-1] in LEAN_KEYWORDS else n
	args = ast.arguments(posonlyargs=[], args=[ast.arg(arg=unmangle(n)) for n, _ in d['params']], kwonlyargs=[], kw_defaults=[], defaults=[])
	fn = ast.FunctionDef(name=node.name, args=args, body=body, decorator_list=[], lineno=node.body[starts[0]].lineno)
	ast.fix_missing_locations(fn)
	for x in ast.walk(fn):
		if not hasattr(x, 'lineno'): x.lineno = fn.lineno
	return fn


def self_attrs_to_names(node: ast.FunctionDef, attrs) -> ast.FunctionDef:
	"""self.<attr> (for the listed attributes) becomes the local name self_<attr>: the method is read as a function of that state"""
	import copy

	class R(ast.NodeTransformer):
		def visit_Attribute(self, n):
			self.generic_visit(n)
			if isinstance(n.value, ast.Name) and n.value.id == 'self' and n.attr in attrs:
				return ast.copy_location(ast.Name(id='self_' + n.attr, ctx=n.ctx), n)
			return n
	return ast.fix_missing_locations(R().visit(copy.deepcopy(node)))


def inline_local_defs(node: ast.FunctionDef) -> ast.FunctionDef:
	"""A helper defined inside the function (`def h(p, q): <statements without return / yield / nested def>`) whose every use is an expression
	statement `h(a, b)` with names or constants as arguments: each call is replaced by the helper's statements with the parameters replaced
	by the arguments (the helper's own locals are renamed `h_<name>`; names of the enclosing function it reads stay as they are)."""
	import copy
	node = copy.deepcopy(node)
	helpers = {st.name: st for st in node.body if isinstance(st, ast.FunctionDef)}
	if not helpers:
		return node
	for h in helpers.values():
		if (h.args.vararg or h.args.kwarg or h.args.kwonlyargs or h.args.defaults or h.decorator_list
				or any(isinstance(x, (ast.Return, ast.Yield, ast.YieldFrom, ast.FunctionDef, ast.Lambda, ast.Global, ast.Nonlocal)) for st in h.body for x in ast.walk(st))):
			raise Untranslatable(f'local helper {h.name}: only plain statements without return are inlined')
	uses = [x for x in ast.walk(node) if isinstance(x, ast.Name) and x.id in helpers]

	def expand(stmts):
		out = []
		for st in stmts:
			if isinstance(st, ast.FunctionDef) and st.name in helpers and st in node.body:
				continue
			if (isinstance(st, ast.Expr) and isinstance(st.value, ast.Call) and isinstance(st.value.func, ast.Name) and st.value.func.id in helpers):
				h = helpers[st.value.func.id]
				call = st.value
				if call.keywords or len(call.args) != len(h.args.args) or not all(isinstance(a, (ast.Name, ast.Constant)) for a in call.args):
					raise Untranslatable(f'call of local helper {h.name}: arguments must be names or constants')
				sub = {p.arg: a for p, a in zip(h.args.args, call.args)}
				assigned = {t.id for x in h.body for y in ast.walk(x) if isinstance(y, (ast.Assign, ast.AugAssign, ast.For))
				            for t in ast.walk(y.targets[0] if isinstance(y, ast.Assign) else y.target) if isinstance(t, ast.Name)}
				if assigned & set(sub):
					raise Untranslatable(f'local helper {h.name} assigns to its parameter')

				class R(ast.NodeTransformer):
					def visit_Name(self, n):
						if n.id in sub:
							return copy.deepcopy(sub[n.id])
						if n.id in assigned:
							return ast.copy_location(ast.Name(id=f'{h.name}_{n.id}', ctx=n.ctx), n)
						return n
				body = [R().visit(copy.deepcopy(x)) for x in h.body if not (isinstance(x, ast.Expr) and isinstance(x.value, ast.Constant))]
				uses.remove(call.func)
				out += body
				continue
			for fld in ('body', 'orelse', 'finalbody'):
				if hasattr(st, fld) and isinstance(getattr(st, fld), list) and not isinstance(st, ast.FunctionDef):
					setattr(st, fld, expand(getattr(st, fld)))
			out.append(st)
		return out
	node.body = expand(node.body)
	if uses:
		raise Untranslatable(f'local helper {uses[0].id} is used other than as a call statement')
	return ast.fix_missing_locations(node)


def self_to_name(node: ast.FunctionDef, name: str) -> ast.FunctionDef:
	"""a method whose object is itself a modelled value (a `Taxon` = a node of the forest): `self` becomes the parameter `name`"""
	import copy

	class R(ast.NodeTransformer):
		def visit_Name(self, n):
			return ast.copy_location(ast.Name(id=name, ctx=n.ctx), n) if n.id == 'self' else n
	return ast.fix_missing_locations(R().visit(copy.deepcopy(node)))


def csv_rows_prepass(node: ast.FunctionDef, d) -> ast.FunctionDef:
	"""`dump_dmat_csv`: the function is read as the list of rows it hands to the csv writer.  `with maybe_open(file, 'w', newline='') as fobj:` is
	its body; `writer = csv.writer(fobj)` starts the list; `writer.writerow(r)` appends `r`; a list display `[a, *b]` is `[a] + list(b)`; a
	generator expression assigned to a name is the list it yields.  Any other use of these names is untranslatable."""
	import copy
	node = copy.deepcopy(node)
	if not (len(node.body) >= 1 and isinstance(node.body[-1], ast.With) and len(node.body[-1].items) == 1
			and ast.unparse(node.body[-1].items[0].context_expr) == d['csv_open'] and ast.unparse(node.body[-1].items[0].optional_vars) == 'fobj'):
		raise Untranslatable(f'the file is not opened with `with {d["csv_open"]} as fobj:` as the last statement')
	pre = [st for st in node.body[:-1] if not (isinstance(st, ast.Expr) and isinstance(st.value, ast.Constant))]
	if pre: raise Untranslatable('statements before the file is opened')
	body = node.body[-1].body
	if not body or ast.unparse(body[0]) != 'writer = csv.writer(fobj)':
		raise Untranslatable('the first statement of the block is not `writer = csv.writer(fobj)`')
	body[0] = ast.parse('writer = []').body[0]

	class R(ast.NodeTransformer):
		def visit_Expr(self, st):
			self.generic_visit(st)
			v = st.value
			if isinstance(v, ast.Call) and ast.unparse(v.func) == 'writer.writerow' and len(v.args) == 1 and not v.keywords:
				return ast.copy_location(ast.Expr(value=ast.Call(func=ast.Attribute(value=ast.Name(id='writer', ctx=ast.Load()), attr='append', ctx=ast.Load()), args=v.args, keywords=[])), st)
			return st

		def visit_List(self, n):
			self.generic_visit(n)
			if any(isinstance(e, ast.Starred) for e in n.elts):
				if not (len(n.elts) == 2 and not isinstance(n.elts[0], ast.Starred) and isinstance(n.elts[1], ast.Starred)):
					raise Untranslatable(f'list display {ast.unparse(n)!r}')
				tail = n.elts[1].value
				if not isinstance(tail, ast.Name):
					tail = ast.Call(func=ast.Name(id='list', ctx=ast.Load()), args=[tail], keywords=[])
				return ast.copy_location(ast.BinOp(left=ast.List(elts=[n.elts[0]], ctx=ast.Load()), op=ast.Add(), right=tail), n)
			return n

		def visit_Assign(self, st):
			self.generic_visit(st)
			if isinstance(st.value, ast.GeneratorExp):
				st.value = ast.copy_location(ast.ListComp(elt=st.value.elt, generators=st.value.generators), st.value)
			return st
	node.body = [R().visit(x) for x in body]
	for x in ast.walk(node):
		if isinstance(x, ast.Name) and x.id == 'fobj':
			raise Untranslatable('the opened file is used other than through the csv writer')
		if isinstance(x, ast.Attribute) and isinstance(x.value, ast.Name) and x.value.id == 'writer' and x.attr != 'append':
			raise Untranslatable(f'writer.{x.attr}')
	return ast.fix_missing_locations(node)


def find_def(tree: ast.Module, qual: str):
	parts = qual.split('.')
	body = tree.body
	node = None
	for p in parts:
		node = next((x for x in body if isinstance(x, (ast.FunctionDef, ast.ClassDef)) and x.name == p), None)
		if node is None:
			return None
		body = node.body
	return node if isinstance(node, ast.FunctionDef) else None


HEADER = '''/-
GENERATED by harness/py2lean.py from {files} — do not edit.
Regenerated at the start of every check; `GambitV.Tie.Py*` proves these definitions equal to the hand-written models.
-/
import GambitV.Model.PyRt
{imports}set_option linter.unusedVariables false
namespace GambitV.Gen
open GambitV

'''


def regenerate(repo: Path, out_dir: Path, stub: set = frozenset()) -> dict:
	"""Translate every function of FUNCS from the working tree; returns the report."""
	src = repo / 'src' / 'gambit'
	report = {'functions': [], 'untranslatable': [], 'modules': {}}
	known = {}
	texts: dict[str, list[str]] = {}
	files: dict[str, set] = {}
	imports: dict[str, set] = {}
	for d in FUNCS:
		path = src / d['file']
		files.setdefault(d['module'], set())
		try:
			text = path.read_text()
			tree = ast.parse(text)
		except Exception as e:  # unreadable / syntax error: everything in it is untranslatable
			tree, text = None, ''
		files[d['module']].add(f'src/gambit/{d["file"]}')
		node = find_def(tree, d['qual']) if tree is not None else None
		fn = None
		try:
			if node is None:
				raise Untranslatable(f'definition {d["qual"]} not found in {d["file"]}')
			if d['name'] in stub:
				raise Untranslatable('generated definition did not type-check')
			if d.get('fragment'):
				node = fragment_of(node, d)
			want = [a.arg for a in node.args.args + node.args.kwonlyargs if a.arg != 'self']
			have = [n for n, _ in d['params'] if not n.startswith('self_')]
			if [mangle(w) for w in want] != have or node.args.vararg or node.args.kwarg:
				raise Untranslatable(f'parameters of {d["qual"]} are {want}, the declaration expects {have}')
			if d.get('inline_local_defs'):
				node = inline_local_defs(node)
			if d.get('csv_open'):
				node = csv_rows_prepass(node, d)
			node = rename_locals(node)
			if d.get('split_loop_targets'):
				node = split_loop_targets(node)
			if d.get('rebind_param'):
				rn, rt = d['rebind_param']
				if rt != f'isinstance({rn}, str)' or dict(d['params']).get(rn) != STR:
					raise Untranslatable('rebind_param: only `isinstance(<text parameter>, str)` is decided by the declared type')
				node = rebind_param(node, d['rebind_param'])
			if d.get('self_as_vars'):
				node = self_attrs_to_names(node, d['self_as_vars'])
			if d.get('self_name'):
				node = self_to_name(node, d['self_name'])
			fn = Fn(d, node, known)
			fn.consts = module_consts(tree)
			out = fn.translate()
			imports.setdefault(d['module'], set()).update(m for m in fn.calls if m != d['module'])
			report['functions'].append(d['name'])
			report.setdefault('ast_sha1', {})[d['name']] = hashlib.sha1(ast.dump(node).encode()).hexdigest()[:12]
		except Untranslatable as e:
			out = Fn(d, node, known).stub(str(e)) if True else ''
			report['untranslatable'].append(f'{d["file"]}:{d["qual"]}: {e}')
			report.setdefault('untranslatable_by_module', {}).setdefault(d['module'], []).append(f'{d["file"]}:{d["qual"]}: {e}')
		known[node.name if node is not None else d['name']] = d
		known.setdefault(d['name'], d)      # also under its translated name (self-method calls refer to it)
		texts.setdefault(d['module'], []).append(out)
	out_dir.mkdir(parents=True, exist_ok=True)
	for module, parts in texts.items():
		text = HEADER.format(files=', '.join(sorted(files[module])),
		                     imports=''.join(f'import GambitV.Gen.{m}\n' for m in sorted(imports.get(module, ())))) + '\n'.join(parts) + '\nend GambitV.Gen\n'
		p = out_dir / f'{module}.lean'
		if not p.exists() or p.read_text() != text:
			p.write_text(text)
		report['modules'][module] = hashlib.sha1(text.encode()).hexdigest()[:12]
	return report


if __name__ == '__main__':
	import json
	import sys
	repo = Path(sys.argv[1] if len(sys.argv) > 1 else '/repo')
	out = Path(sys.argv[2] if len(sys.argv) > 2 else Path(__file__).resolve().parent.parent / 'lean' / 'GambitV' / 'Gen')
	print(json.dumps(regenerate(repo, out), indent=1))
