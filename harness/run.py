#!/venv/bin/python
"""Entry point of every check:  run.py <ID> quick|thorough [--replay FILE]"""
from __future__ import annotations

import importlib
import json
import os
import sys
import time
import traceback
from pathlib import Path

HERE = Path(__file__).resolve().parent
sys.path.insert(0, str(HERE))

import core  # noqa: E402
from core import (Ctx, BrokenCheck, EXIT_OK, EXIT_VIOLATION, EXIT_BROKEN, log, VERIF, LEAN)  # noqa: E402


def main(argv):
	if len(argv) < 2:
		print('usage: run.py <ID> quick|thorough [--replay FILE]', file=sys.stderr)
		return EXIT_BROKEN
	pid = argv[0].upper()
	replay = None
	if '--replay' in argv:
		replay = argv[argv.index('--replay') + 1]
		tier = 'quick'
	else:
		tier = argv[1]
	tier = os.environ.get('VERIF_TIER', tier)
	if tier not in ('quick', 'thorough'):
		tier = 'quick'
	seed = int(os.environ.get('VERIF_SEED', '0') or 0)
	os.environ.setdefault('GAMBIT_VERIF', '1')
	# import the working tree of the repository, whatever is installed
	sys.path.insert(0, str(core.REPO / 'src'))

	ctx = Ctx(pid, tier, seed)
	try:
		mod = importlib.import_module(f'props.{pid.lower()}')
	except ModuleNotFoundError as e:
		print(f'no check module for {pid}: {e}', file=sys.stderr)
		return EXIT_BROKEN
	ctx.module = mod

	try:
		return _run(ctx, mod, replay)
	except BrokenCheck as e:
		log(f'BROKEN-CHECK {pid}: {e}')
		return EXIT_BROKEN
	except Exception:
		traceback.print_exc()
		log(f'BROKEN-CHECK {pid}: unexpected exception in the harness')
		return EXIT_BROKEN


def _run(ctx: Ctx, mod, replay):
	pid = ctx.pid
	# ---- T: regenerate Gen from the .pyx sources and from the translated Python functions -----------------------------------------------
	t = time.time()
	gen_report = core.regenerate_gen()
	# ---- build -------------------------------------------------------------------------------
	ok, out, failed = core.lake_build()
	build_s = time.time() - t
	tie_modules = [m for m, _ in getattr(mod, 'TIE', [])]
	imports = core.lean_imports()
	tie_closure = core.import_closure(tie_modules, imports)          # the Tie modules of this property, their Gen modules and helper lemmas
	gen_dependent = {m for m in imports if any(x.startswith('GambitV.Gen.') for x in core.import_closure([m], imports))}
	tie_failed = []
	if not ok:
		# a generated module that does not type-check (the source changed into something the translation does not type): emit it as a
		# stub, record the tie as broken, and build again so that the driver and the unaffected modules are available
		gen_failed = [m for m in failed if m.startswith('GambitV.Gen.Py')]
		if gen_failed:
			from py2lean import FUNCS
			stub = {d['name'] for d in FUNCS if 'GambitV.Gen.' + d['module'] in gen_failed}
			first_error = _first_error(out)
			gen_report = core.regenerate_gen(stub)
			ok, out, failed2 = core.lake_build()
			failed = sorted(set(failed2) | set(gen_failed))
			ctx.notes.append(f'generated module(s) {gen_failed} did not type-check: {first_error}')
	if not ok or failed:
		mine = [m for m in failed if not (m in gen_dependent and m.startswith('GambitV.'))]
		if mine:
			log(out[-3000:])
			raise BrokenCheck(f'lake build failed outside Gen/Tie: {mine}')
		# Gen/Tie failed: the driver may still be buildable (it does not import Tie)
		ok2, out2, failed2 = core.lake_build(('driver',))
		if not ok2 and not core.DRIVER.exists():
			raise BrokenCheck('driver cannot be built')
		# only relevant for this property if its Tie modules depend on the failing modules
		tie_failed = [m for m in failed if m in tie_closure]
		if tie_failed:
			ctx.tie_broken = tie_failed
			ctx.notes.append('lake build failed in: ' + ', '.join(failed))
			ctx.notes.append(_first_error(out))
	untranslatable = [u for m, us in gen_report.get('untranslatable_by_module', {}).items() if m in tie_closure or (m == '*' and tie_modules) for u in us]
	if untranslatable:
		ctx.notes += ['translator: ' + u for u in untranslatable]
		if not ctx.tie_broken:
			ctx.tie_broken = ['translator: ' + u for u in untranslatable]

	# ---- audit -------------------------------------------------------------------------------
	forb = core.grep_forbidden()
	pairs = [mod.PROPS] + list(getattr(mod, 'PROPS_EXTRA', [])) + list(getattr(mod, 'TIE', []))
	if ctx.tie_broken:
		# the Props module may import a broken Tie module; audit what still exists
		pairs = [p for p in pairs if (LEAN / '.lake/build/lib/lean' / (p[0].replace('.', '/') + '.olean')).exists()
		         and not (core.import_closure([p[0]], imports) & set(failed))]
	audit = core.audit_axioms(pairs)
	all_pairs = [mod.PROPS] + list(getattr(mod, 'PROPS_EXTRA', [])) + list(getattr(mod, 'TIE', []))
	obligations = sum(len(core.theorem_names(LEAN / (m.replace('.', '/') + '.lean'), ns)) for m, ns in all_pairs
	                  if (LEAN / (m.replace('.', '/') + '.lean')).exists())
	discharged = len([n for n, ax in audit['theorems'].items() if set(ax) <= core.ALLOWED_AXIOMS])
	axioms_used = sorted({a for ax in audit['theorems'].values() for a in ax})
	if forb:
		raise BrokenCheck('forbidden construct in lean/: ' + '; '.join(forb[:5]))
	if audit['bad']:
		raise BrokenCheck(f'theorems with unexpected axioms: {audit["bad"]}')
	if discharged < obligations and not ctx.tie_broken:
		log(audit.get('raw_tail', ''))
		raise BrokenCheck(f'{obligations - discharged} theorem(s) of {pid} not found in the built environment: {audit["missing"][:5]}')

	# ---- thorough: independent re-check of the compiled modules with leanchecker ---------------------
	leanchecker = None
	if ctx.tier == 'thorough' and not ctx.tie_broken and not replay:
		import subprocess
		mods = [m for m, _ in all_pairs]
		r = subprocess.run(['lake', 'env', 'leanchecker', *mods], cwd=LEAN, capture_output=True, text=True)
		leanchecker = {'modules': mods, 'exit': r.returncode, 'tail': (r.stdout + r.stderr)[-300:]}
		if r.returncode != 0:
			raise BrokenCheck(f'leanchecker rejected {mods}: {leanchecker["tail"]}')

	# ---- R: correspondence -----------------------------------------------------------------------
	if replay:
		payload = json.loads(Path(replay).read_text())
		cases = payload.get('cases') or ([payload['case']] if 'case' in payload else [])   # a tie-broken replay has no input: the build/audit above re-decides it
		for case in cases:
			lines, extra = _check_case(ctx, mod, case)
			ctx.submit(case, lines, pyfails=extra)
	else:
		mod.run(ctx)
	ctx.flush()

	# ---- classify ----------------------------------------------------------------------------
	known = core.load_known(pid)
	known_by_key = {e['key']: e for e in known}
	violations = []
	known_hits = {}
	for f in ctx.failures:
		key = mod.finding_key(f) if hasattr(mod, 'finding_key') else None
		if key is not None and key in known_by_key:
			known_hits.setdefault(key, f)
		else:
			violations.append(f)

	for key, f in known_hits.items():
		print(f'KNOWN-FINDING: property={pid} {known_by_key[key]["description"]}')

	status = EXIT_OK
	replay_paths = []
	if violations:
		f = violations[0]
		if hasattr(mod, 'shrink'):
			try:
				f = mod.shrink(ctx, f) or f
			except Exception as e:  # shrinking is best effort
				ctx.notes.append(f'shrink failed: {e!r}')
		payload = {
			'property': pid, 'kind': 'failing-input',
			'case': f['case'], 'bad': f.get('bad'), 'pyfails': f.get('pyfails'),
			'other_failing_cases': len(violations) - 1,
			'tie_broken': ctx.tie_broken,
			'reproduce': f'cd /verif && ./check {pid} --replay <this file>',
			'seed': ctx.seed, 'tier': ctx.tier,
		}
		p = core.write_replay(pid, payload)
		replay_paths.append(str(p))
		print(f'VIOLATION property={pid} replay={p}')
		status = EXIT_VIOLATION
	elif ctx.tie_broken or ctx.diffs:
		corr = sorted({b['reply'][5:].split(':')[0] for d in ctx.diffs for b in d['bad']})
		payload = {
			'property': pid, 'kind': 'tie-broken',
			'no_longer_checks': list(ctx.tie_broken) + ['correspondence ' + c_ for c_ in corr],
			'detail': ctx.notes,
			# the first inputs on which model / generated definitions and implementation differ; the statement's predicate accepted the
			# implementation's output on every one of them (re-evaluated by --replay)
			'cases': [d['case'] for d in ctx.diffs[:3]],
			'first_differences': [b['reply'][:600] for d in ctx.diffs[:3] for b in d['bad'][:2]],
			'diverging_cases': getattr(ctx, 'ndiffs', 0),
			'searched': {'evaluations': ctx.evaluations, 'driver_requests': ctx.requests,
			             'tier': ctx.tier, 'seed': ctx.seed},
			'explanation': 'the definitions generated from the current sources (harness/pyx2lean.py for _cython/*.pyx, harness/py2lean.py for '
			               'the translated Python functions) no longer satisfy the tie theorem(s) named above, or a source construct is '
			               'outside the translated subset (see detail), or the model / the generated definitions and the implementation differ on the '
			               'recorded cases while the statement\'s own predicate accepts the implementation\'s output there (a broken correspondence); '
			               'no concrete failing input was found by the search over the generated definitions, the model and the implementation',
		}
		p = core.write_replay(pid, payload)
		replay_paths.append(str(p))
		print(f'VIOLATION property={pid} replay={p} no-failing-input-found')
		status = EXIT_VIOLATION

	# ---- evidence ------------------------------------------------------------------------------
	rule = getattr(mod, 'RULE', 'see DESIGN.md')
	ev = {
		'property_id': pid, 'tier': ctx.tier, 'seed': ctx.seed, 'level': 'proof',
		'coverage': {
			'obligations': obligations,
			'discharged': discharged,
			'checker_cmd': 'cd /verif/lean && lake build GambitV && lake env lean <#print axioms of every theorem in '
			               + ', '.join(m for m, _ in all_pairs) + '>',
			'trusted_base': ['Lean 4.33.0 kernel', *(f'axiom {a}' for a in axioms_used),
			                 *getattr(mod, 'TRUSTED', [])],
			'theorems': sorted(audit['theorems'].keys()),
			'evaluations': ctx.evaluations,
			'distinct_nontrivial': len(ctx.nontrivial_keys),
			'rule': rule,
			'samples': ctx.samples,
			'traces_validated_against_impl': ctx.evaluations,
			'driver_requests': ctx.requests,
			'input_distribution': dict(ctx.dist.most_common(60)),
			'translator': {k: v for k, v in gen_report.items() if k != 'text'},
			'exhaustive': bool(ctx.exhaustive) if ctx.exhaustive is not None else False,
			'exhaustive_streams': ctx.exhaustive if isinstance(ctx.exhaustive, (list, dict)) else None,
			'known_findings_reproduced': sorted(known_hits.keys()),
			'replays': replay_paths,
			'notes': ctx.notes,
			'build_s': round(build_s, 2),
			'leanchecker': leanchecker,
		},
		'assumptions': list(getattr(mod, 'ASSUMPTIONS', [])),
		'wall_s': round(ctx.elapsed(), 2),
		'violations': len(violations) + (1 if ((ctx.tie_broken or ctx.diffs) and not violations) else 0),
	}
	if not replay:
		core.write_evidence(pid, ev)
	log(f'{pid} {ctx.tier}: {ctx.evaluations} cases, {ctx.requests} driver requests, '
	    f'{len(ctx.nontrivial_keys)} distinct non-trivial, {discharged}/{obligations} theorems, '
	    f'{len(violations)} violations, {len(known_hits)} known findings, {ctx.elapsed():.1f}s')
	return status


def _check_case(ctx, mod, case):
	return core.safe_check(mod.check, ctx, case)


def _first_error(out: str) -> str:
	for line in out.splitlines():
		if line.startswith('error:'):
			return line[:500]
	return ''


if __name__ == '__main__':
	sys.exit(main(sys.argv[1:]))
