"""A scratch 'world' for CLI properties: genome FASTA files with awkward names, list files, signature files, a database."""
import os
import random

import dbutil

NAMES = ['alpha.fasta', 'beta.fna.gz', 'gamma delta.fa', 'eps,ilon.fasta', 'zeta.ffn', 'eta.fasta.gz', 'theta', 'io"ta.frn', 'kappa.gz',
         'lambda.fa.gz', 'mu.faa', 'nu.fasta.fasta', 'xi.txt', 'omicron.FASTA']


class GenomeWorld:
	def __init__(self, seed, n=8, kspec=(6, 'AT'), ntaxa=5, base_len=600, prefix='gv_w_'):
		self.rng = rng = random.Random(seed)
		self.sc = dbutil.Scratch(prefix)
		self.spec = kspec
		from gambit.kmers import KmerSpec
		self.kspec = KmerSpec(*kspec)
		self.taxa = dbutil.rand_taxonomy(rng, ntaxa, thr_values=(None, 0.5, 0.7, 0.8, 0.9, 1.0))
		self.ref_genomes, self.ref_seqs, self.bases = dbutil.rand_genomes_for(rng, self.taxa, n, base_len=base_len, mut=0.02)
		self.dbdir = self.sc.subdir('db')
		dbutil.build_refdb(self.dbdir, taxa=self.taxa, genomes=self.ref_genomes, kspec=self.kspec, seqs=self.ref_seqs)
		# query genomes: mutated copies of taxon bases, written under awkward names, in sub-directories
		self.qdir = self.sc.subdir('queries')
		(self.qdir / 'sub').mkdir()
		self.genomes = []    # dicts: path, contigs
		names = NAMES[:]
		rng.shuffle(names)
		for i, name in enumerate(names[:10]):
			ti = rng.randrange(ntaxa)
			seq = dbutil.mutate(rng, self.bases[ti], rng.choice([0.0, 0.01, 0.05, 0.3]))
			contigs = dbutil.split_contigs(rng, seq, rng.randint(1, 3))
			rel = ('sub/' + name) if i % 3 == 0 else name
			path = self.qdir / rel
			dbutil.write_fasta(path, contigs, gz=name.endswith('.gz'), width=rng.choice([60, 70, None]))
			self.genomes.append({'path': path, 'rel': rel, 'contigs': contigs, 'name': name})
		# namesakes: for every genome a *different* genome under the same file name in another directory, and in a decoy
		# working directory under the same relative path (a command must never pick these up unless asked to)
		self.decoy_cwd = self.sc.subdir('decoy_cwd')
		(self.decoy_cwd / 'sub').mkdir()
		self.namesake_dir = self.sc.subdir('namesakes')
		(self.namesake_dir / 'sub').mkdir()
		for g in self.genomes:
			other = dbutil.mutate(rng, dbutil.rand_dna(rng, base_len), 0.0)
			for d in (self.decoy_cwd, self.namesake_dir):
				dbutil.write_fasta(d / g['rel'], [other], gz=g['name'].endswith('.gz'))
			g['namesake'] = {'path': self.namesake_dir / g['rel'], 'rel': g['rel'], 'contigs': [other], 'name': g['name']}
		# staged inputs: every genome also reachable through a symbolic link whose own name differs from the target's
		# (Nextflow / Snakemake style); a command labels its input by the path it was GIVEN
		self.link_dir = self.sc.subdir('links')
		for i, g in enumerate(self.genomes):
			g['link'] = self.link_dir / f'sample{i}_{g["name"]}'
			os.symlink(g['path'], g['link'])
		# a second, different database (other taxonomy, other reference genomes) for "several databases in one process"
		rng2 = random.Random(seed + 1)
		self.taxa2 = dbutil.rand_taxonomy(rng2, ntaxa + 1, thr_values=(None, 0.6, 0.8, 0.95, 1.0))
		g2, s2, _ = dbutil.rand_genomes_for(rng2, self.taxa2, max(3, n - 2), base_len=base_len, mut=0.02, key_prefix='H')
		self.dbdir2 = self.sc.subdir('db2')
		dbutil.build_refdb(self.dbdir2, taxa=self.taxa2, genomes=g2, kspec=self.kspec, seqs=s2, gset_key='test/gset2')
		self._sig = {}

	def multi_member_gz(self, g):
		"""the same genome as a gzip file with several members (bgzip / `cat a.gz b.gz` style); same base name"""
		import gzip as _gz
		d = self.sc.subdir()
		name = g['name'] if g['name'].endswith('.gz') else g['name'] + '.gz'
		p = d / name
		import io
		parts = []
		for i, c in enumerate(g['contigs']):
			buf = io.BytesIO()
			with _gz.GzipFile(fileobj=buf, mode='wb') as f:
				f.write(b'>contig%d test\n' % (i + 1) + c + b'\n')
			parts.append(buf.getvalue())
		p.write_bytes(b''.join(parts))
		return p

	def sig_of(self, g, spec=None):
		"""real single-genome signature (cached)"""
		from gambit.sigs.calc import calc_file_signature
		from gambit.seq import SequenceFile
		from gambit.kmers import KmerSpec
		spec = spec or self.spec
		key = (str(g['path']), spec)
		if key not in self._sig:
			self._sig[key] = calc_file_signature(KmerSpec(*spec), SequenceFile(g['path'], 'fasta', 'auto'))
		return self._sig[key]

	def listfile(self, gs, name='list.txt', blank_lines=False):
		p = self.sc.path(name)
		lines = [g['rel'] for g in gs]
		text = ''
		for l in lines:
			text += l + '\n'
			if blank_lines and self.rng.random() < 0.3:
				text += '\n'
		p.write_text(text)
		return p

	def sigfile(self, gs, ids=None, spec=None, name=None):
		import numpy as np
		from gambit.sigs import AnnotatedSignatures, SignatureList, SignaturesMeta, dump_signatures
		from gambit.kmers import KmerSpec
		spec = spec or self.spec
		p = self.sc.path(name or f'sigs{self.sc._n}.gs')
		ids = ids if ids is not None else [f'stored-{i}-{g["name"]}' for i, g in enumerate(gs)]
		sl = SignatureList([self.sig_of(g, spec) for g in gs], KmerSpec(*spec))
		dump_signatures(p, AnnotatedSignatures(sl, ids, SignaturesMeta(id_attr='key')))
		return p, ids

	def db_sigs(self):
		from gambit.sigs import load_signatures
		return load_signatures(self.dbdir / 'ref.gs')

	def cleanup(self):
		self.sc.cleanup()
