"""Shared helpers for the taxonomy properties (C03, C09, C10): forests, real Taxon objects, exact scaling."""
from fractions import Fraction
import itertools
import types


def all_forests(n):
	"""all parent vectors with parent[i] in {None, 0..i-1} (every forest on n nodes up to topological numbering)"""
	choices = [[None] + list(range(i)) for i in range(n)]
	return [list(p) for p in itertools.product(*choices)]


def rand_forest(rng, n, deep=False):
	parent = []
	for i in range(n):
		if i == 0 or rng.random() < (0.08 if deep else 0.2):
			parent.append(None)
		elif deep and rng.random() < 0.6:
			parent.append(i - 1)
		else:
			parent.append(rng.randrange(i))
	return parent


THR_VALUES = [None, None, 0.0, 0.125, 0.25, 0.3, 0.5, 0.75, 1.0, 0.2, 0.1]


def rand_thr(rng, n, p_none=0.3):
	return [None if rng.random() < p_none else rng.choice([v for v in THR_VALUES if v is not None]) for _ in range(n)]


def build_taxa(parent, thr, report):
	from gambit.db import Taxon
	taxa = []
	for i, p in enumerate(parent):
		t = Taxon(name=f'T{i}', key=f'T{i}', distance_threshold=thr[i], report=bool(report[i]))
		t.id = i + 1
		if p is not None:
			t.parent = taxa[p]
		taxa.append(t)
	return taxa


def build_genomes(taxa, gtax):
	from gambit.db import AnnotatedGenome, Genome
	gs = []
	for i, t in enumerate(gtax):
		g = AnnotatedGenome(genome=Genome(key=f'g{i}', description=f'genome {i}'), taxon=taxa[t], organism=f'org {i}')
		gs.append(g)
	return gs


def scale_all(*lists):
	"""Scale every number of the given lists (floats / None) by a common power of two to exact naturals."""
	fr = [[None if x is None else Fraction(float(x)) for x in l] for l in lists]
	den = 1
	for l in fr:
		for x in l:
			if x is not None and x.denominator > den:
				den = x.denominator
	out = []
	for l in fr:
		out.append([None if x is None else int(x * den) for x in l])
	return out


def forest_token(parent, thr_scaled, report):
	o = lambda x: '~' if x is None else str(int(x))
	j = lambda l: ','.join(l) if l else '-'
	return j([o(p) for p in parent]) + '|' + j([o(t) for t in thr_scaled]) + '|' + j(['1' if r else '0' for r in report])


def idx_of(objs):
	return {id(o): i for i, o in enumerate(objs)}


def fake_db(genomes):
	return types.SimpleNamespace(genomes=genomes)


DIST_VALUES = [0.0, 0.125, 0.25, 0.3, 0.5, 0.75, 1.0, 0.2, 0.1, 0.30000001192092896, 0.2999999821186066, 0.12500001, 0.6, 0.9]


def rand_dists(rng, n, tie_heavy=True):
	import numpy as np
	if tie_heavy:
		pool = rng.sample(DIST_VALUES, rng.randint(1, 4))
		return np.array([rng.choice(pool) for _ in range(n)], dtype=np.float32)
	return np.array([rng.choice(DIST_VALUES) if rng.random() < 0.5 else rng.random() for _ in range(n)], dtype=np.float32)
